"""C03 - root-of-trust hash and certificate blocks are a pure function of the root keys.

Runtime monitoring: the real SPSDK paths that tell a user which RoT value to burn (RKHT v1 / v2.1, ``Rot`` for every
``rot_type`` of the database, PFR CMPA ROTKH, debug-credential RoT meta, AHAB and HAB SRK tables, the ``nxpcrypto rot``
CLI, certificate block v1 / v2.1 objects) are driven with key sets from the committed pool (+ constructed keys with a
leading-zero coordinate byte) in every input form; every value is compared with ``vf.refs.rot`` (hashlib over raw
numbers) and with every other path / form / used-root index / fresh process (metamorphic relations).
"""
from __future__ import annotations

import base64
import itertools
import json
import os
import random
import struct
import subprocess

from vf import core, pki
from vf.refs import ecdsa as ref_ecdsa
from vf.refs import rot as ref

ID = "C03"
LEVEL = "exploration"
TECHNIQUE = "runtime monitoring: differential oracle (hashlib reference over raw numbers) + metamorphic relations across paths, input forms, used-root index, order and fresh processes"
RULE = (
    "key sets of 1..4 keys from the committed pool (RSA-2048/3072/4096, P-256/384/521; all orders for <= 3 keys, sampled for 4) "
    "and constructed ECC keys with a leading-zero X and/or Y byte (rejection sampling from the case rng); every key in every "
    "input form (private/public PEM/DER, CA and non-CA certificate PEM/DER, NXP raw, file path / bytes / bytearray / object); "
    "every rot_type of the database with families enumerated from the database under test; certificate block v1 chains of "
    "depth 1..3 x root index x alignment; certificate block v2.1 grid curve x roots x used index x ISK curve x user-data length. "
    "A case signature is (workload, key kind, key count, path, outcome class); non-trivial = the real path returned a value "
    "that was compared with the reference."
)
ASSUMPTIONS = [
    "documented constructions are those of DESIGN.md C03 / Appendix A (vf/refs/rot.py, self-tested on CST SRK tables/fuse files and stored RKTH values)",
    "a path that refuses a key kind / form it does not support (SPSDKError) is counted as refused, never as a disagreement",
    "AHAB SRK records carry the CA flag of the source: CA certificates are their own input class (reference sets the CA bit); mixed CA / bare inputs are not judged",
    "HAB SRK entries are built from certificates only; the CA flag is KeyUsage.keyCertSign of the certificate (read by an independent DER reader)",
    "ROTKH position and width inside CMPA come from the register description of the database under test",
    "debug-credential families with dat_is_using_sha256_always are judged with P-256 keys only",
    "certificate block v1 alignment is a property of the container, not of the blob: the parsed block is re-exported with the same alignment",
]
REQUIRED_COUNTERS = [
    "rkht_v1", "rkht_v21", "rot_cert_block_1", "rot_cert_block_21", "rot_srk_table_ahab", "rot_srk_table_hab",
    "pfr_rotkh", "pfr_rotkh_value", "rotmeta", "dc_hash", "ahab_srktable", "hab_srktable", "cli", "form_invariance", "order_sensitivity",
    "used_index_invariance", "cb_v1_roundtrip", "cb_v21_roundtrip", "isk_signature", "fresh_process", "leading_zero_keys",
]
CASE_TIMEOUT_S = 1800
WATCHDOG_S = {"quick": 3000, "thorough": 14400}  # wall-clock only (inconclusive); sized for a heavily shared machine

RSA_KINDS = ("rsa2048", "rsa3072", "rsa4096")
ECC_KINDS = ("p256", "p384", "p521")
CURVE_SIZE = {"p256": 32, "p384": 48, "p521": 66}

# ------------------------------------------------------------------------------------------ forms
FILE_FORMS = {  # form stem -> (pki 'what', fmt)
    "priv.pem": ("priv", "pem"), "priv.der": ("priv", "der"), "pub.pem": ("pub", "pem"), "pub.der": ("pub", "der"),
    "nonca.pem": ("nonca", "pem"), "nonca.der": ("nonca", "der"), "ca.pem": ("cert", "pem"), "ca.der": ("cert", "der"),
}
BARE_FORMS = [f"{s}:{h}" for s in ("priv.pem", "priv.der", "pub.pem", "pub.der", "nonca.pem", "nonca.der", "raw", "refraw")
              for h in ("path", "bytes")] + ["pub.der:bytearray", "obj:pub", "obj:priv", "obj:nonca"]
CA_FORMS = [f"{s}:{h}" for s in ("ca.pem", "ca.der") for h in ("path", "bytes")] + ["ca.der:bytearray", "obj:ca"]
CERT_FORMS = [f for f in BARE_FORMS + CA_FORMS if f.startswith(("nonca.", "ca.")) or f in ("obj:nonca", "obj:ca")]
PATH_FORMS = [f for f in BARE_FORMS + CA_FORMS if f.endswith(":path")]
CANON = "nonca.der:path"  # parsed at the first attempt (certificate); a public-key PEM costs a failed private-key parse each time


def is_ca_form(form: str) -> bool:
    return form.startswith("ca.") or form == "obj:ca"


def refkey(num: dict) -> dict:
    return ref.rsa_key(num["n"], num["e"]) if num["type"] == "rsa" else ref.ecc_key(num["x"], num["y"], num["size"])


_ROTATE = [0]


class KM:
    """One key: reference numbers + every input form (files from the pool, or written to the work dir)."""

    def __init__(self, name: str, key: dict, files: dict, workdir: str):
        self.name = name
        self.key = key
        self.files = dict(files)  # stem -> path
        self.workdir = workdir
        self._cache: dict = {}

    @classmethod
    def pool(cls, name: str, workdir: str) -> "KM":
        files = {stem: pki.path(name, what, fmt) for stem, (what, fmt) in FILE_FORMS.items()}
        return cls(name, refkey(pki.numbers(name)), files, workdir)

    def _raw_file(self, stem: str) -> str:
        if stem not in self.files:
            from spsdk.crypto.crypto_types import SPSDKEncoding
            from spsdk.crypto.keys import PublicKey

            if stem == "raw":  # produced by the real key class
                data = PublicKey.load(self.files["pub.pem"]).export(SPSDKEncoding.NXP)
            else:  # the documented NXP raw form written by the reference
                data = ref.raw_public(self.key)
            os.makedirs(self.workdir, exist_ok=True)
            p = os.path.join(self.workdir, f"{self.name}.{stem}.bin")
            with open(p, "wb") as f:
                f.write(data)
            self.files[stem] = p
        return self.files[stem]

    def path(self, stem: str) -> str:
        return self._raw_file(stem) if stem in ("raw", "refraw") else self.files[stem]

    def get(self, form: str, stable: bool = False):
        """The value handed to SPSDK for this form (objects are created fresh on every call).  ``stable``: never a rotating
        slot (for values that are used later, e.g. by a child interpreter)."""
        stem, how = form.split(":")
        if stem == "obj":
            from spsdk.crypto.certificate import Certificate
            from spsdk.crypto.keys import PrivateKey, PublicKey

            if how == "pub":
                return PublicKey.load(self.files["pub.der"])
            if how == "priv":
                return PrivateKey.load(self.files["priv.pem"])
            if how == "nonca":
                return Certificate.load(self.files["nonca.der"])
            if how == "ca":
                return Certificate.load(self.files["ca.pem"])
            raise ValueError(form)
        p = self.path(stem)
        if how == "path":
            # every third path is a ROTATING slot: one file name per form that holds another key each time it is used (key
            # rotation, a script that rewrites k0.pem for every run); the RoT value is a function of what the file holds now
            _ROTATE[0] += 0 if stable else 1
            if not stable and _ROTATE[0] % 3 == 0:
                import shutil as _sh

                os.makedirs(self.workdir, exist_ok=True)
                # (eight names per form, used in turn: the <= 4 positions of one call never share a file)
                slot = os.path.join(self.workdir, f"rotating_slot{(_ROTATE[0] // 3) % 8}_" + stem.replace(".", "_") + os.path.splitext(p)[1])
                _sh.copyfile(p, slot)
                return slot
            return p
        if (stem,) not in self._cache:
            with open(p, "rb") as f:
                self._cache[(stem,)] = f.read()
        data = self._cache[(stem,)]
        return bytearray(data) if how == "bytearray" else data


def _name(subject: str):
    from cryptography import x509
    from cryptography.x509.oid import NameOID

    return x509.Name([x509.NameAttribute(NameOID.COMMON_NAME, subject), x509.NameAttribute(NameOID.ORGANIZATION_NAME, "verif-c03")])


def make_cert(priv, subject: str, ca: bool, key_usage=None, serial: int = 0x5000) -> bytes:
    """Self-signed certificate (DER) built with `cryptography` - an *input*, never part of the oracle."""
    import datetime

    from cryptography import x509
    from cryptography.hazmat.primitives import hashes, serialization
    from cryptography.hazmat.primitives.asymmetric import ec

    b = (x509.CertificateBuilder().subject_name(_name(subject)).issuer_name(_name(subject)).public_key(priv.public_key())
         .serial_number(serial).not_valid_before(datetime.datetime(2024, 1, 1)).not_valid_after(datetime.datetime(2044, 1, 1))
         .add_extension(x509.BasicConstraints(ca=ca, path_length=None), critical=True))
    if key_usage is not None:
        b = b.add_extension(x509.KeyUsage(digital_signature=True, content_commitment=False, key_encipherment=False,
                                          data_encipherment=False, key_agreement=False, key_cert_sign=bool(key_usage),
                                          crl_sign=bool(key_usage), encipher_only=False, decipher_only=False), critical=True)
    h = hashes.SHA256()
    if isinstance(priv, ec.EllipticCurvePrivateKey):
        h = {256: hashes.SHA256(), 384: hashes.SHA384(), 521: hashes.SHA512()}[priv.curve.key_size]
    return b.sign(priv, h).public_bytes(serialization.Encoding.DER)


def load_pool_private(name: str):
    from cryptography.hazmat.primitives import serialization

    return serialization.load_der_private_key(pki.data(name, "priv", "der"), None)


def der_to_pem(der: bytes, label: str = "CERTIFICATE") -> bytes:
    b64 = base64.encodebytes(der).replace(b"\n", b"")
    lines = [b64[i:i + 64] for i in range(0, len(b64), 64)]
    return b"-----BEGIN " + label.encode() + b"-----\n" + b"\n".join(lines) + b"\n-----END " + label.encode() + b"-----\n"


def construct_lz_key(rng: random.Random, curve: str, which: str, workdir: str, tag: str) -> KM:
    """ECC key whose X and/or Y has a leading zero byte, by deterministic rejection sampling of the private scalar."""
    from cryptography.hazmat.primitives import serialization
    from cryptography.hazmat.primitives.asymmetric import ec

    cobj = {"p256": ec.SECP256R1(), "p384": ec.SECP384R1(), "p521": ec.SECP521R1()}[curve]
    c = ref_ecdsa.get_curve(curve)
    size = CURVE_SIZE[curve]
    top = 8 * (size - 1)
    for draws in range(1, 400000):
        d = rng.randrange(1, c.n)
        priv = ec.derive_private_key(d, cobj)
        pn = priv.public_key().public_numbers()
        zx, zy = pn.x >> top == 0, pn.y >> top == 0
        if (which == "x" and zx) or (which == "y" and zy) or (which == "xy" and zx and zy):
            break
    else:
        raise core.Inconclusive("no leading-zero key found")
    # independent confirmation of the public point (pure-Python scalar multiplication)
    if ref_ecdsa.pub_from_private(c, d) != (pn.x, pn.y) or not ref_ecdsa.on_curve(c, pn.x, pn.y):
        raise core.Inconclusive("constructed key: public point not confirmed by the reference curve arithmetic")
    name = f"lz_{curve}_{which}_{tag}"
    os.makedirs(workdir, exist_ok=True)
    enc = serialization.Encoding
    pub = priv.public_key()
    blobs = {
        "priv.pem": priv.private_bytes(enc.PEM, serialization.PrivateFormat.PKCS8, serialization.NoEncryption()),
        "priv.der": priv.private_bytes(enc.DER, serialization.PrivateFormat.PKCS8, serialization.NoEncryption()),
        "pub.pem": pub.public_bytes(enc.PEM, serialization.PublicFormat.SubjectPublicKeyInfo),
        "pub.der": pub.public_bytes(enc.DER, serialization.PublicFormat.SubjectPublicKeyInfo),
    }
    nonca = make_cert(priv, name + "-leaf", False)
    cac = make_cert(priv, name, True)
    blobs.update({"nonca.der": nonca, "nonca.pem": der_to_pem(nonca), "ca.der": cac, "ca.pem": der_to_pem(cac)})
    files = {}
    for stem, data in blobs.items():
        p = os.path.join(workdir, f"{name}.{stem}")
        with open(p, "wb") as f:
            f.write(data)
        files[stem] = p
    km = KM(name, ref.ecc_key(pn.x, pn.y, size), files, workdir)
    km.draws = draws
    km.d = d
    return km


# ------------------------------------------------------------------------------------- plumbing
def attempt(fn):
    """('ok', value) | ('refused', exc) | ('crash', exc raised inside the tree under test with a non-SPSDK type)."""
    try:
        return "ok", fn()
    except Exception as e:  # pylint: disable=broad-except
        if core.is_refusal(e):
            return "refused", e
        if core.origin_of(e) == "repo":
            return "crash", e
        raise


_DB: dict = {}


def db_info() -> dict:
    """Families per rot_type, PFR families with a ROTKH register, DAT families per class - from the database under test."""
    if _DB:
        return _DB
    from spsdk.utils.database import DatabaseManager, get_db, get_families

    by_type: dict = {}
    for fam in get_families(DatabaseManager.CERT_BLOCK):
        by_type.setdefault(get_db(fam).get_str(DatabaseManager.CERT_BLOCK, "rot_type"), []).append(fam)
    _DB["rot"] = {k: sorted(v) for k, v in by_type.items()}
    # revisions whose rot_type differs from the family's latest one (the RoT construction is per revision)
    from spsdk.utils.database import get_device

    rev_diff = []
    for fam in get_families(DatabaseManager.CERT_BLOCK):
        latest = get_db(fam).get_str(DatabaseManager.CERT_BLOCK, "rot_type")
        for rev in get_device(fam).revisions.revision_names():
            try:
                t = get_db(fam, rev).get_str(DatabaseManager.CERT_BLOCK, "rot_type")
            except Exception:  # pylint: disable=broad-except  # the revision has no certificate block feature
                continue
            if t != latest:
                rev_diff.append((fam, rev, t))
    _DB["rev_diff"] = sorted(rev_diff)
    fam_type = {f: t for t, fs in by_type.items() for f in fs}
    _DB["fam_type"] = fam_type
    from spsdk.pfr.pfr import CMPA

    pfr = []
    for fam in sorted(CMPA.get_supported_families()):
        if fam_type.get(fam) in ("cert_block_1", "cert_block_21"):
            pfr.append(fam)
    _DB["pfr"] = pfr
    from spsdk.dat.debug_credential import DebugCredentialCertificate

    dat: dict = {"plain": [], "ele": [], "ele_v2": [], "sha256_always": set()}
    for fam in sorted(DebugCredentialCertificate.get_supported_families()):
        db = get_db(fam)
        if db.get_bool(DatabaseManager.DAT, "based_on_ele", False):
            dat["ele" if db.get_int(DatabaseManager.DAT, "ele_cnt_version", 1) == 1 else "ele_v2"].append(fam)
        else:
            dat["plain"].append(fam)
            if db.get_bool(DatabaseManager.DAT, "dat_is_using_sha256_always", False):
                dat["sha256_always"].add(fam)
    _DB["dat"] = dat
    return _DB


def cert_stem(form: str) -> str:
    stem, how = form.split(":")
    if stem == "obj":
        return {"nonca": "nonca.der", "ca": "ca.pem"}[how]
    return stem


def hab_flag(km: KM, form: str) -> bool:
    with open(km.files[cert_stem(form)], "rb") as f:
        return bool(ref.cert_info(f.read())["key_cert_sign"])


def expected(rot_type: str, kms: list, forms: list):
    """(hash, table) of the documented construction; raises ref.Unsupported when there is none."""
    keys = [k.key for k in kms]
    if rot_type == "cert_block_1":
        return ref.v1_rkth(keys), ref.v1_table(keys)
    if rot_type == "cert_block_21":
        return ref.v21_rkth(keys), ref.v21_table(keys)
    if rot_type in ("srk_table_ahab", "srk_table_ahab_v2"):
        cas = {is_ca_form(f) for f in forms}
        if len(cas) != 1:
            raise ref.Unsupported("mixed CA / bare inputs are not judged")
        ca = cas.pop()
        if rot_type == "srk_table_ahab":
            return ref.ahab_srk_hash(keys, ca), ref.ahab_srk_table(keys, ca)
        return ref.ahab_v2_srk_hash(keys, ca), ref.ahab_v2_srk_table(keys, ca)
    if rot_type == "srk_table_hab":
        if not 1 <= len(keys) <= 4:
            raise ref.Unsupported("1..4 SRK entries")
        ents = [ref.hab_srk_entry(k.key, hab_flag(k, f)) for k, f in zip(kms, forms)]
        return ref.hab_fuses(ents), ref.hab_srk_table(ents)
    if rot_type == "dat_ecc":  # RoT meta of the ECC debug credential: like 2.1 but P-521 (SHA-512) is allowed
        ref._same_kind(keys)  # pylint: disable=protected-access
        if len(keys) == 1:
            return ref.key_hash(keys[0]), b""
        table = b"".join(ref.key_hash(k) for k in keys)
        import hashlib

        return hashlib.new(ref.key_hash_name(keys[0]), table).digest(), table
    raise ValueError(rot_type)


class Path:
    """One real way of computing the RoT value."""

    def __init__(self, name, counter, rot_type, fn, forms, canon=CANON, note=""):
        self.name = name
        self.counter = counter
        self.rot_type = rot_type
        self.fn = fn  # list of values -> (hash, table or None)
        self.forms = forms  # candidate forms for the equivalence relation (same class as canon)
        self.canon = canon
        self.note = note
        self.post = None  # optional (hash, table) -> (hash, table) adaptation of the expected value


def kind_of_set(kms: list) -> str:
    ks = sorted({("rsa%d" % ref.rsa_bits(k.key)) if k.key["type"] == "rsa" else {32: "p256", 48: "p384", 66: "p521"}[k.key["size"]] for k in kms})
    return "+".join(ks)


def crash_key(path: Path, forms: list, exc: BaseException) -> str:
    """Mechanism key for a non-SPSDK exception raised inside the tree, decided by inspecting the case."""
    if isinstance(exc, AttributeError) and "obj:ca" in forms and "'ca'" in str(exc):
        return "rkht-convert-key-ca-certificate-object-attributeerror"
    if isinstance(exc, TypeError) and any(f.endswith(":bytearray") for f in forms) and "bytearray" in str(exc):
        if path.name.startswith(("rot:srk_table_hab", "cli-rot:srk_table_hab")):
            return "rot-hab-load-certificate-bytearray-typeerror"  # RotSrkTableHab._load_certificate, its own code path
        return "rkht-convert-key-bytearray-typeerror"
    if path.name == "rotmeta-ecc" and isinstance(exc, (KeyError, struct.error)) and "64" in str(exc):
        return "rotmeta-ecc-p521-item-size"  # C15 defect surfacing here: SHA-512 items are 64 B, the code assumes 66
    return f"{path.name}/escape:{type(exc).__name__}"


# ---------------------------------------------------------------------------------------- paths
def _to_pub(v):
    """What the pfr application does with its key arguments (real SPSDK loaders)."""
    from spsdk.crypto.certificate import Certificate
    from spsdk.crypto.keys import PrivateKey
    from spsdk.crypto.utils import extract_public_key, extract_public_key_from_data

    if isinstance(v, str):
        return extract_public_key(v)
    if isinstance(v, (bytes, bytearray)):
        return extract_public_key_from_data(bytes(v))
    if isinstance(v, (PrivateKey, Certificate)):
        return v.get_public_key()
    return v


def _to_cert(v):
    from spsdk.crypto.certificate import Certificate

    if isinstance(v, str):
        return Certificate.load(v)
    if isinstance(v, (bytes, bytearray)):
        return Certificate.parse(bytes(v))
    return v


def cli_rot(args: list):
    """Run `nxpcrypto rot ...` in-process; returns the click result; SPSDK errors are re-raised (refusal)."""
    from click.testing import CliRunner

    from spsdk.apps import nxpcrypto

    res = CliRunner().invoke(nxpcrypto.main, args)
    if res.exception is not None and not isinstance(res.exception, SystemExit):
        raise res.exception
    if res.exit_code != 0:
        from spsdk.exceptions import SPSDKError

        raise SPSDKError(f"nxpcrypto exit code {res.exit_code}: {res.output[-200:]}")
    return res


def build_paths(ctx, kms: list, rng: random.Random, families_per_type: int, with_cli: bool = True) -> list:
    from spsdk.dat.debug_credential import RotMetaEcc, RotMetaEdgeLockEnclave, RotMetaRSA
    from spsdk.exceptions import SPSDKError
    from spsdk.image.ahab.ahab_srk import SRKTable, SRKTableV2
    from spsdk.image.secret import SrkItem, SrkTable
    from spsdk.pfr.pfr import CMPA
    from spsdk.utils.crypto.rkht import RKHTv1, RKHTv21
    from spsdk.utils.crypto.rot import Rot

    info = db_info()
    n = len(kms)
    is_rsa = kms[0].key["type"] == "rsa"
    all_forms = BARE_FORMS + CA_FORMS
    paths: list = []

    def rk(cls):
        def fn(vals):
            t = cls.from_keys(list(vals))
            return t.rkth(), t.export()
        return fn

    paths.append(Path("rkht-v1", "rkht_v1", "cert_block_1", rk(RKHTv1), all_forms))
    paths.append(Path("rkht-v21", "rkht_v21", "cert_block_21", rk(RKHTv21), all_forms))

    def rot_fn(fam, rev="latest"):
        def fn(vals):
            r = Rot(fam, rev, list(vals))
            return r.calculate_hash(), r.export()
        return fn

    def cli_fn(fam, rev=None):
        def fn(vals):
            out = os.path.join(ctx.workdir, "cli_out.bin")
            os.makedirs(ctx.workdir, exist_ok=True)
            keyargs = [a for v in vals for a in ("-k", v)] + (["-r", rev] if rev else [])
            res = cli_rot(["rot", "calculate-hash", "-f", fam, "-o", out] + keyargs)
            with open(out, "rb") as f:
                h = f.read()
            if f"RoT hash: '{h.hex()}'" not in res.output:
                ctx.violation("cli-rot/printed-hash-differs-from-written-file", {"family": fam, "output": res.output[-300:], "file": h})
            res = cli_rot(["rot", "calculate-hash", "-f", fam, "-o", out, "-b"] + keyargs)
            with open(out, "rb") as f:
                b64 = f.read()
            if base64.b64decode(b64) != h or b64.decode() not in res.output:
                ctx.violation("cli-rot/base64-output-differs", {"family": fam, "b64": b64, "hash": h})
            cli_rot(["rot", "export", "-f", fam, "-o", out] + keyargs)
            with open(out, "rb") as f:
                table = f.read()
            return h, table
        return fn

    for rot_type in sorted(info["rot"]):
        fams = list(info["rot"][rot_type])
        rng.shuffle(fams)
        for fam in fams[:families_per_type]:
            if rot_type in ("cert_block_1", "cert_block_21"):
                classes = [(all_forms, CANON, "")]
            elif rot_type in ("srk_table_ahab", "srk_table_ahab_v2"):
                classes = [(BARE_FORMS, CANON, ""), (CA_FORMS, "ca.pem:path", "+ca")]
            elif rot_type == "srk_table_hab":
                classes = [(CERT_FORMS, "nonca.pem:path", "")]
            else:
                classes = [(all_forms, CANON, "")]  # no documented construction (cert_block_x): a refusal is expected
            for forms, canon, suffix in classes:
                known = rot_type if rot_type in ("cert_block_1", "cert_block_21", "srk_table_ahab", "srk_table_ahab_v2", "srk_table_hab") else None
                paths.append(Path(f"rot:{rot_type}{suffix}", f"rot_{rot_type}", known, rot_fn(fam), forms, canon, note=fam))
                if with_cli and known:
                    pf = [f for f in forms if f.endswith(":path")]
                    paths.append(Path(f"cli-rot:{rot_type}{suffix}", "cli", known, cli_fn(fam), pf, canon, note=fam))

    # every (family, revision) whose rot_type differs from the family's latest revision: the construction must follow
    # the revision asked for, not the latest one
    for fam, rev, rot_type in info.get("rev_diff", []):
        known = rot_type if rot_type in ("cert_block_1", "cert_block_21", "srk_table_ahab", "srk_table_ahab_v2", "srk_table_hab") else None
        if known is None:
            continue
        forms, canon = (BARE_FORMS, CANON) if rot_type.startswith("srk_table_ahab") else ((CERT_FORMS, "nonca.pem:path") if rot_type == "srk_table_hab" else (all_forms, CANON))
        paths.append(Path(f"rot:{rot_type}@rev", f"rot_{rot_type}", known, rot_fn(fam, rev), forms, canon, note=f"{fam}/{rev}"))
        if with_cli:
            pf = [f for f in forms if f.endswith(":path")]
            paths.append(Path(f"cli-rot:{rot_type}@rev", "cli", known, cli_fn(fam, rev), pf, canon, note=f"{fam}/{rev}"))

    # PFR CMPA ROTKH
    pfr_fams = list(info["pfr"])
    rng.shuffle(pfr_fams)
    per_type: dict = {}
    for fam in pfr_fams:
        t = info["fam_type"][fam]
        if per_type.get(t, 0) >= families_per_type:
            continue
        per_type[t] = per_type.get(t, 0) + 1

        def pfr_fn(vals, fam=fam):
            c = CMPA(family=fam)
            reg = c.registers.find_reg("ROTKH")
            how = rng.randrange(4)
            if how == 1:
                # the page was read back from a part provisioned with other keys: the configuration carries their hash
                c.set_config({"ROTKH": core.rand_bytes(rng, reg.width // 8).hex()})
                ctx.count("pfr_rotkh_over_an_earlier_value")
            elif how == 2:
                # the same object served another key set before
                c.export(keys=[_to_pub(v) for v in vals][::-1] + [], draw=False)
                c.export(rotkh=core.rand_bytes(rng, 32), draw=False)
                ctx.count("pfr_rotkh_over_an_earlier_value")
            blob = c.export(keys=[_to_pub(v) for v in vals], draw=False)
            field = blob[reg.offset:reg.offset + reg.width // 8]
            return field, None

        def pfr_post(h, table, fam=fam):
            width = CMPA(family=fam).registers.find_reg("ROTKH").width // 8
            if len(h) > width:
                raise ref.Unsupported("hash wider than ROTKH")
            return h.ljust(width, b"\x00"), None

        p = Path(f"pfr-cmpa:{t}", "pfr_rotkh", t, pfr_fn, all_forms, note=fam)
        p.post = pfr_post
        paths.append(p)
        if with_cli and rng.random() < 0.12:  # (each call of the tool costs ~0.4 s)
            def pfr_cli_fn(vals, fam=fam):
                # `pfr generate-binary -sf k0 -sf k1 ...`: the keys take the table slots in the order of the command line
                from click.testing import CliRunner
                from spsdk.apps import pfr as pfr_app

                d = os.path.join(ctx.workdir, "pfr_cli")
                os.makedirs(d, exist_ok=True)
                tpl, out = os.path.join(d, f"cmpa_{fam}.yaml"), os.path.join(d, "cmpa.bin")
                if not os.path.exists(tpl):  # the template of a family is made once per worker
                    r = CliRunner().invoke(pfr_app.main, ["get-template", "-f", fam, "-t", "cmpa", "-o", tpl, "--force"], catch_exceptions=True)
                    if r.exit_code != 0:
                        raise core.Inconclusive(f"pfr get-template failed for {fam}: {(r.output or '')[-200:]}")
                args = ["generate-binary", "-c", tpl, "-o", out, "--ignore"] + [a for v in vals for a in ("-sf", v)]
                r = CliRunner().invoke(pfr_app.main, args, catch_exceptions=True)
                if r.exit_code != 0:
                    if r.exception is not None and not isinstance(r.exception, SystemExit) and not core.is_refusal(r.exception):
                        raise r.exception
                    from spsdk.exceptions import SPSDKError

                    raise SPSDKError(f"pfr generate-binary exit {r.exit_code}: {(r.output or '')[-200:]}")
                reg = CMPA(family=fam).registers.find_reg("ROTKH")
                with open(out, "rb") as f:
                    blob = f.read()
                ctx.count("pfr_cli_generate_binary")
                return blob[reg.offset:reg.offset + reg.width // 8], None

            pc = Path(f"cli-pfr-cmpa:{t}", "cli", t, pfr_cli_fn, [f for f in all_forms if f.endswith(":path")][:3], note=fam)
            pc.post = pfr_post
            paths.append(pc)

    # debug-credential RoT meta (configuration = file paths)
    path_forms = [f for f in all_forms if f.endswith(":path")]

    def meta_fn(cls, strip, extra=None):
        def fn(vals):
            cfg = {"rot_meta": list(vals), "rot_id": 0}
            cfg.update(extra or {})
            m = cls.load_from_config(cfg)
            data = m.export()
            h = m.calculate_hash()
            back = type(m).parse(data)
            if back.export() != data:
                ctx.violation(f"rotmeta-{cls.__name__}/parse-export-changes-blob", {"n": len(vals)})
            elif back.calculate_hash() != h:
                ctx.violation(f"rotmeta-{cls.__name__}/hash-changes-after-parse", {"n": len(vals)})
            if len(vals) > 1 and cls is not RotMetaRSA:  # the used root (rot_id) is recorded in the flags word only
                m2 = cls.load_from_config(dict(cfg, rot_id=len(vals) - 1))
                ctx.count("used_index_invariance")
                if m2.calculate_hash() != h or m2.export()[4:] != data[4:]:
                    ctx.violation(f"rotmeta-{cls.__name__}/depends-on-used-root-index", {"n": len(vals), "rot_id": len(vals) - 1})
            return h, data[strip:]
        return fn

    homogeneous = "+" not in kind_of_set(kms)
    if is_rsa and homogeneous:
        paths.append(Path("rotmeta-rsa", "rotmeta", "cert_block_1", meta_fn(RotMetaRSA, 0), path_forms))
    elif homogeneous:
        paths.append(Path("rotmeta-ecc", "rotmeta", "dat_ecc", meta_fn(RotMetaEcc, 4), path_forms))
    if n == 4:
        paths.append(Path("rotmeta-ele", "rotmeta", "srk_table_ahab", meta_fn(RotMetaEdgeLockEnclave, 4),
                          [f for f in BARE_FORMS if f.endswith(":path")]))
        paths.append(Path("rotmeta-ele+ca", "rotmeta", "srk_table_ahab", meta_fn(RotMetaEdgeLockEnclave, 4),
                          [f for f in CA_FORMS if f.endswith(":path")], "ca.pem:path"))

        def srk_fn(cls):
            def fn(vals):
                t = cls.load_from_config({"srk_array": list(vals)})
                t.update_fields()
                ver = t.verify()
                if ver.has_errors:
                    raise SPSDKError("SRK table verifier: " + ver.draw()[-300:])
                data = t.export()
                h = t.compute_srk_hash()
                if cls is SRKTable:
                    back = cls.parse(data)
                    if back.export() != data or back.compute_srk_hash() != h:
                        ctx.violation("ahab-srktable/parse-export-changes-table-or-hash", {})
                return h, data
            return fn

        for cls, rt in ((SRKTable, "srk_table_ahab"), (SRKTableV2, "srk_table_ahab_v2")):
            paths.append(Path(f"ahab-{cls.__name__}", "ahab_srktable", rt, srk_fn(cls), [f for f in BARE_FORMS if f.endswith(":path")]))
            paths.append(Path(f"ahab-{cls.__name__}+ca", "ahab_srktable", rt, srk_fn(cls), [f for f in CA_FORMS if f.endswith(":path")], "ca.pem:path"))

    # HAB SRK table through its own API (certificates only)
    def hab_fn(vals):
        t = SrkTable(version=0x40)
        for v in vals:
            t.append(SrkItem.from_certificate(_to_cert(v)))
        data = t.export()
        h = t.export_fuses()
        back = SrkTable.parse(data)
        if back.export() != data or back.export_fuses() != h:
            ctx.violation("hab-srktable/parse-export-changes-table-or-fuses", {"n": len(vals)})
        words = b"".join(struct.pack("<I", t.get_fuse(i)) for i in range(8))
        if words != h:
            ctx.violation("hab-srktable/get_fuse-differs-from-export_fuses", {"n": len(vals)})
        # entries replaced by their digest (SRK_1_2_H3_H4 style) must leave the fuses unchanged
        t2 = SrkTable(version=0x40)
        for i, v in enumerate(vals):
            it = SrkItem.from_certificate(_to_cert(v))
            t2.append(it.hashed_entry() if i % 2 else it)
        if t2.export_fuses() != h or SrkTable.parse(t2.export()).export_fuses() != h:
            ctx.violation("hab-srktable/hashed-entries-change-fuses", {"n": len(vals)})
        return h, data

    paths.append(Path("hab-srktable", "hab_srktable", "srk_table_hab", hab_fn, CERT_FORMS, "nonca.pem:path"))
    return paths


# ----------------------------------------------------------------------------------- evaluation
def _want(path: Path, kms: list, forms: list):
    if path.rot_type is None:
        return None
    try:
        w = expected(path.rot_type, kms, forms)
        post = getattr(path, "post", None)
        return post(*w) if post else w
    except ref.Unsupported:
        return None


def _cmp(ctx, path: Path, what: str, val, want, detail: dict, suffix: str = "") -> bool:
    ok = True
    pname = path.name
    if val[0] != want[0]:
        ctx.violation(f"{pname}/hash-differs-from-{what}{suffix}", dict(detail, got=val[0], want=want[0]))
        ok = False
    if val[1] is not None and want[1] is not None and val[1] != want[1]:
        ctx.violation(f"{pname}/table-differs-from-{what}{suffix}", dict(detail, got=val[1], want=want[1]))
        ok = False
    return ok


def eval_paths(ctx, workload: str, kms: list, paths: list, rng: random.Random, forms_per_pos: int, lz: str = "") -> dict:
    """Reference comparison, form invariance and order sensitivity of every path on one ordered key set."""
    n = len(kms)
    kind = kind_of_set(kms)
    names = [k.name for k in kms]
    values: dict = {}
    sfx = "+leading-zero" if lz else ""
    for p in paths:
        forms0 = [p.canon] * n
        detail = {"path": p.name, "family": p.note, "keys": names, "forms": forms0}
        st, val = attempt(lambda: p.fn([k.get(f) for k, f in zip(kms, forms0)]))
        want = _want(p, kms, forms0)
        sig = [workload, kind, n, p.name, st if want is not None or st != "ok" else "ok-undocumented"]
        if st == "refused":
            ctx.refused(sig, f"{p.name} {kind} n={n}: {core.exc_brief(val)}")
            continue
        if st == "crash":
            ctx.violation(crash_key(p, forms0, val), dict(detail, exception=core.exc_brief(val)))
            continue
        if want is None:
            ctx.note("accepted_without_documented_construction", {"path": p.name, "kind": kind, "n": n})
            ctx.ok(sig, nontrivial=False)
            continue
        ctx.count(p.counter)
        good = _cmp(ctx, p, "reference", val, want, detail, sfx)
        values[p.name] = val
        evals = 1
        # invariance under each key's input form
        others = [f for f in p.forms if f != p.canon]
        for pos in range(n):
            chosen = others if forms_per_pos >= len(others) else rng.sample(others, forms_per_pos)
            if kms[pos].key["type"] == "rsa" and ref.rsa_bits(kms[pos].key) >= 3072:
                # loading a big RSA private key costs ~0.1 s (key validation): one private-key form per position and path
                priv = [f for f in chosen if f.startswith(("priv.", "obj:priv"))]
                chosen = [f for f in chosen if f not in priv[1:]]
            for f in chosen:
                forms = list(forms0)
                forms[pos] = f
                st2, val2 = attempt(lambda: p.fn([k.get(ff) for k, ff in zip(kms, forms)]))
                d2 = dict(detail, forms=forms, position=pos)
                if st2 == "refused":
                    ctx.refused([workload, kind, n, p.name, "form", f.split(":")[0], "refused"], f"{p.name} form {f}: {core.exc_brief(val2)}")
                    continue
                if st2 == "crash":
                    ctx.violation(crash_key(p, forms, val2), dict(d2, exception=core.exc_brief(val2)))
                    good = False
                    continue
                ctx.count("form_invariance")
                evals += 1
                w2 = _want(p, kms, forms)  # differs from `want` only where the form carries a flag (HAB KeyUsage)
                if w2 is not None and w2 != want:
                    good &= _cmp(ctx, p, "reference", val2, w2, d2, sfx)
                elif val2[0] != val[0] or (val[1] is not None and val2[1] != val[1]):
                    ctx.violation(f"{p.name}/depends-on-input-form:{f}{sfx}", dict(d2, got=val2[0], canonical=val[0]))
                    good = False
        # sensitivity to order
        pairs = [(i, j) for i in range(n) for j in range(i + 1, n) if kms[i].key != kms[j].key]
        if pairs:
            i, j = pairs[rng.randrange(len(pairs))]
            sw = list(kms)
            sw[i], sw[j] = sw[j], sw[i]
            st3, val3 = attempt(lambda: p.fn([k.get(f) for k, f in zip(sw, forms0)]))
            d3 = dict(detail, keys=[k.name for k in sw], swapped=[i, j])
            if st3 == "ok":
                ctx.count("order_sensitivity")
                evals += 1
                w3 = _want(p, sw, forms0)
                if val3[0] == val[0]:
                    ctx.violation(f"{p.name}/insensitive-to-key-order{sfx}", dict(d3, value=val3[0]))
                    good = False
                elif w3 is not None:
                    good &= _cmp(ctx, p, "reference", val3, w3, d3, sfx)
            elif st3 == "crash":
                ctx.violation(crash_key(p, forms0, val3), dict(d3, exception=core.exc_brief(val3)))
                good = False
            else:
                ctx.violation(f"{p.name}/refuses-reordered-key-set", dict(d3, exception=core.exc_brief(val3)))
                good = False
        if good:
            ctx.ok(sig + (["lz", lz] if lz else []), n=evals,
                   sample={"path": p.name, "family": p.note, "keys": names, "hash": val[0], "evaluations": evals})
    # direct agreement between the paths of one rot type (already implied by the reference; kept as its own relation)
    groups: dict = {}
    for p in paths:
        if p.name in values and getattr(p, "post", None) is None:
            groups.setdefault((p.rot_type, p.canon == "ca.pem:path", p.rot_type == "srk_table_hab"), []).append(p.name)
    for g, members in groups.items():
        for a, b in zip(members, members[1:]):
            if values[a][0] != values[b][0]:
                ctx.violation(f"paths-disagree:{a}|{b}{sfx}", {"keys": names, a: values[a][0], b: values[b][0]})
    return values


def dc_config(kms: list, used: int, fam: str, dck: str, forms: list) -> dict:
    return {"family": fam, "revision": "latest", "uuid": "00112233445566778899aabbccddeeff", "cc_socu": 0x3FF, "cc_vu": 0x5678,
            "cc_beacon": 0, "rot_meta": [k.get(f) for k, f in zip(kms, forms)], "rot_id": used,
            "rotk": kms[used].path("priv.pem"), "dck": dck}


_DC_KEPT: list = []  # (credential object, reference hash, detail) of earlier cases of this worker process


def eval_dc(ctx, workload: str, kms: list, rng: random.Random, lz: str = "") -> None:
    """DebugCredentialCertificate.calculate_hash(): reference, invariance under the used root (rot_id) and the input form."""
    from spsdk.dat.debug_credential import DebugCredentialCertificate

    info = db_info()["dat"]
    n = len(kms)
    kind = kind_of_set(kms)
    is_rsa = kms[0].key["type"] == "rsa"
    sfx = "+leading-zero" if lz else ""
    jobs = []
    if "+" in kind or kind == "rsa3072":
        return  # the debug authentication protocol defines RSA-2048/4096 and P-256/384/521 credentials only
    plain = [f for f in info["plain"] if kind == "p256" or f not in info["sha256_always"]]
    if plain:
        jobs.append(("dc-plain", core.pick(rng, plain), "cert_block_1" if is_rsa else "dat_ecc", CANON,
                     [f for f in BARE_FORMS + CA_FORMS if f.endswith(":path")]))
    if info["ele"] and n == 4:
        jobs.append(("dc-ele", core.pick(rng, info["ele"]), "srk_table_ahab", CANON, [f for f in BARE_FORMS if f.endswith(":path")]))
        jobs.append(("dc-ele+ca", core.pick(rng, info["ele"]), "srk_table_ahab", "ca.pem:path", [f for f in CA_FORMS if f.endswith(":path")]))
    dck = kms[0].path("pub.pem")
    for name, fam, rot_type, canon, forms_all in jobs:
        base = None
        for used in range(n):
            forms = [canon] * n
            if used:  # vary one form together with the used index
                forms[rng.randrange(n)] = core.pick(rng, forms_all)
            detail = {"path": name, "family": fam, "keys": [k.name for k in kms], "rot_id": used, "forms": forms}
            made = []
            st, val = attempt(lambda: (made.append(DebugCredentialCertificate.create_from_yaml_config(dc_config(kms, used, fam, dck, forms))),
                                       made[0].calculate_hash())[1])
            sig = [workload, kind, n, name, st]
            # the credentials made earlier by this process (other curves, other key counts) are asked again now that another
            # one exists: their value depends on their own keys only
            for old, old_want, old_detail in _DC_KEPT:
                st2, val2 = attempt(old.calculate_hash)
                ctx.count("dc_hash_asked_again_later")
                if st2 != "ok" or val2 != old_want:
                    ctx.violation("dc/hash-of-an-earlier-credential-changed-after-another-one-was-made",
                                  dict(old_detail, later=detail, now=val2 if st2 == "ok" else core.exc_brief(val2), before=old_want))
                    _DC_KEPT.clear()
                    break
            if st == "refused":
                ctx.refused(sig, f"{name} {kind} n={n}: {core.exc_brief(val)}")
                break
            if st == "crash":
                key = "rotmeta-ecc-p521-item-size" if kind == "p521" and name == "dc-plain" else f"{name}/escape:{type(val).__name__}"
                ctx.violation(key, dict(detail, exception=core.exc_brief(val)))
                break
            try:
                want = expected(rot_type, kms, forms)[0]
            except ref.Unsupported:
                ctx.note("accepted_without_documented_construction", {"path": name, "kind": kind, "n": n})
                break
            ctx.count("dc_hash")
            if val != want:
                ctx.violation(f"{name}/hash-differs-from-reference{sfx}", dict(detail, got=val, want=want))
                break
            if made and (used == 0 or rng.random() < 0.3):
                _DC_KEPT.append((made[0], want, detail))
                del _DC_KEPT[:-8]
            if base is None:
                base = val
            else:
                ctx.count("used_index_invariance")
                if val != base:
                    ctx.violation(f"{name}/depends-on-used-root-index{sfx}", dict(detail, got=val, index0=base))
                    break
        else:
            ctx.ok([workload, kind, n, name, "ok"] + (["lz", lz] if lz else []), n=n, sample={"path": name, "family": fam, "hash": base})


# --------------------------------------------------------------------------- certificate block v1
def _any_record_order(cfg: dict, rng) -> dict:
    """The same configuration with its records written in another order (a YAML mapping has none): the slot of a root
    certificate is the NUMBER in its key, not the position of the record."""
    if rng.random() < 0.4:
        return cfg
    items = list(cfg.items())
    rng.shuffle(items)
    return dict(items)


def run_cb_v1(case, ctx) -> None:
    from spsdk.crypto.certificate import Certificate
    from spsdk.utils.crypto.cert_blocks import CertBlockV1

    rng = ctx.rng
    kind, depth, nroots, used, alignment = case["rsa"], case["depth"], case["nroots"], case["used"], case["alignment"]
    pool = pki.names(kind)
    root = pool[case["root"]]
    others = [x for x in pool if x != root]
    rng.shuffle(others)
    roots = others[:nroots - 1]
    roots.insert(used, root)  # the chain's root sits at index `used`
    kms = [KM.pool(x, ctx.workdir) for x in roots]
    chain = pki.chain(root, depth)
    cert_paths = list(chain["certs"])
    if depth == 1:
        cert_paths = [pki.path(root, "nonca", "der")]  # a sole certificate must be self-signed and not a CA
    certs_der = []
    for p in cert_paths:
        with open(p, "rb") as f:
            certs_der.append(f.read())
    build = rng.getrandbits(32)
    image_length = rng.randrange(1, 1 << 24)
    want_table = ref.v1_table([k.key for k in kms])
    want_rkth = ref.v1_rkth([k.key for k in kms])
    detail = {"kind": kind, "depth": depth, "roots": roots, "used": used, "alignment": alignment, "via": case["via"]}
    sig = ["cb_v1", kind, depth, nroots, used, alignment, case["via"]]

    def build_api():
        cb = CertBlockV1(build_number=build)
        for i, der in enumerate(certs_der):
            cb.add_certificate(der if i % 2 == 0 else Certificate.parse(der))
        # the table is what the LAST write of every slot left: slots are written in any order, and a slot may first get
        # another key's hash that a later call replaces (history independence of the table / the RKTH)
        writes = [(idx, km) for idx, km in enumerate(kms)]
        history = rng.choice(["ascending", "shuffled", "rewritten"])
        if history != "ascending":
            rng.shuffle(writes)
        if history == "rewritten":
            decoys = [(rng.randrange(len(kms)), rng.choice(kms)) for _ in range(rng.randrange(1, 4))]
            writes = decoys + writes
        detail["history"] = [i for i, _ in writes]
        ctx.count(f"cb_v1_history/{history}")
        for idx, km in writes:
            how = rng.randrange(3)
            if how == 0:
                cb.set_root_key_hash(idx, Certificate.load(km.files[core.pick(rng, ["ca.pem", "ca.der", "nonca.pem", "nonca.der"])]))
            elif how == 1:
                cb.set_root_key_hash(idx, ref.key_hash(km.key))
            else:
                cb.set_root_key_hash(idx, bytearray(ref.key_hash(km.key)))
        return cb

    def build_cfg():
        cfg = {"imageBuildNumber": build, "mainRootCertId": used}
        for idx, km in enumerate(kms):
            cfg[f"rootCertificate{idx}File"] = cert_paths[0] if idx == used else km.files[core.pick(rng, ["ca.pem", "ca.der", "nonca.pem", "nonca.der"])]
        for i, p in enumerate(cert_paths[1:]):
            cfg[f"chainCertificate{used}File{i}"] = p
        return CertBlockV1.from_config(_any_record_order(cfg, rng))

    st, cb = attempt(build_api if case["via"] == "api" else build_cfg)
    if st != "ok":
        if st == "refused":
            ctx.violation("cb-v1/refuses-valid-chain", dict(detail, exception=core.exc_brief(cb)))
        else:
            ctx.violation(f"cb-v1/escape:{type(cb).__name__}", dict(detail, exception=core.exc_brief(cb)))
        return
    cb.alignment = alignment
    data = cb.export()  # header image length still 0: it is filled in by the container that embeds the block
    ctx.count("cb_v1_roundtrip")
    try:
        r = ref.parse_cert_block_v1(data, alignment)
    except ref.Malformed as e:
        ctx.violation("cb-v1/exported-block-malformed", dict(detail, why=str(e)))
        return
    bad = []
    if r["certs"] != [d + bytes(-len(d) % 4) for d in certs_der]:  # each certificate is stored zero padded to a multiple of 4
        bad.append("certificates")
    if r["table"] != want_table:
        bad.append("rkh-table")
    if r["build_number"] != build or r["image_length"] != 0 or r["version"] != (1, 0) or r["flags"] != 0:
        bad.append("header")
    if cb.rkth != want_rkth or bytes(cb.rkth) != r["rkth"]:
        bad.append("rkth")
    if list(cb.rkth_fuses) != ref.v1_fuses(want_rkth):
        bad.append("rkth_fuses")
    if cb.rkh_index != used:
        bad.append("rkh_index")
    if [bytes(h) for h in cb.rkh] != [ref.key_hash(k.key) for k in kms]:
        bad.append("rkh-list")
    if len(data) != cb.raw_size or len(data) != cb.expected_size:
        bad.append("size")
    for b in bad:
        ctx.violation(f"cb-v1/{b}-differs-from-reference", dict(detail, rkth=cb.rkth, want_rkth=want_rkth))
    # parse(export) keeps everything
    st, back = attempt(lambda: CertBlockV1.parse(data))
    if st != "ok":
        ctx.violation("cb-v1/parse-rejects-own-export", dict(detail, exception=core.exc_brief(back)))
        return
    back.alignment = alignment
    if back.export() != data:
        ctx.violation("cb-v1/parse-export-not-identical", detail)
        bad.append("x")
    if back.rkth != want_rkth or back.rkh_index != used or list(back.rkth_fuses) != ref.v1_fuses(want_rkth):
        ctx.violation("cb-v1/parsed-block-loses-rkth-or-index", dict(detail, rkth=back.rkth, want=want_rkth))
        bad.append("x")
    # a trailing garbage / longer buffer (block embedded in an image) must parse to the same block
    st, back2 = attempt(lambda: CertBlockV1.parse(data + core.rand_bytes(rng, 24)))
    if st == "ok":
        back2.alignment = alignment
        if back2.export() != data:
            ctx.violation("cb-v1/parse-depends-on-trailing-bytes", detail)
            bad.append("x")
    # the image length written by the embedding container is part of the block and must survive parse as well
    cb.image_length = image_length
    data_l = cb.export()
    if data_l[:20] + data_l[24:] != data[:20] + data[24:] or data_l[20:24] != struct.pack("<I", image_length):
        ctx.violation("cb-v1/image-length-not-at-header-offset-20", dict(detail, image_length=image_length))
        bad.append("x")
    else:
        st, back3 = attempt(lambda: CertBlockV1.parse(data_l))
        if st == "ok":
            back3.alignment = alignment
            if back3.image_length != image_length or back3.export() != data_l:
                ctx.violation("cb-v1/parse-drops-image-length", dict(detail, image_length=image_length, parsed=back3.image_length,
                                                                     reexported_field=back3.export()[20:24]))
    # used-root invariance: the same roots with another chain root give the same RKTH (checked through the table)
    ctx.count("used_index_invariance")
    if not bad:
        ctx.ok(sig, n=3, sample={"roots": roots, "used": used, "depth": depth, "len": len(data), "rkth": want_rkth})


# ------------------------------------------------------------------------- certificate block v2.1
USER_DATA_LENGTHS = [0, 1, 4, 15, 16, 17, 48, 96]
V21_BYTES_FORMS = [f for f in BARE_FORMS + CA_FORMS if f.endswith(":bytes")]  # the constructor documents bytes / PublicKeyEcc


def verify_isk(ctx, detail: dict, data: bytes, r: dict, root: KM, isk: KM, user_data: bytes, constraints: int) -> bool:
    i = r["isk"]
    want_signed = ref.isk_signed_data(r["rkr"], ref.raw_public(isk.key), user_data, constraints, isk.key["size"])
    ok = True
    if i["signed"] != want_signed:
        ctx.violation("cb-v21/isk-certificate-bytes-differ-from-reference", dict(detail, got=i["signed"], want=want_signed))
        ok = False
    size = root.key["size"]
    rr, ss = ref_ecdsa.raw_decode_sig(i["signature"], size)
    curve = {32: "p256", 48: "p384"}[size]
    ctx.count("isk_signature")
    if not ref_ecdsa.verify_message(curve, (root.key["x"], root.key["y"]), want_signed, rr, ss, ref.ECC_HASH[size]):
        ctx.violation("cb-v21/isk-signature-does-not-verify-over-record-header-key-userdata", dict(detail, signature=i["signature"]))
        ok = False
    if r["end"] != len(data):
        ctx.violation("cb-v21/block-does-not-end-at-the-signature", dict(detail, end=r["end"], length=len(data)))
        ok = False
    return ok


def run_cb_v21(case, ctx) -> None:
    from spsdk.crypto.signature_provider import get_signature_provider
    from spsdk.utils.crypto.cert_blocks import CertBlockV21

    rng = ctx.rng
    curve, nroots, used, isk_curve, ulen, via = case["curve"], case["nroots"], case["used"], case["isk"], case["ulen"], case["via"]
    pool = list(pki.names(curve))
    rng.shuffle(pool)
    kms = [KM.pool(x, ctx.workdir) for x in pool[:nroots]]
    if case.get("lz"):
        kms[used] = construct_lz_key(rng, curve, case["lz"], ctx.workdir, "cb")
        ctx.count("leading_zero_keys")
    keys = [k.key for k in kms]
    isk = None
    if isk_curve:
        cand = [x for x in pki.names(isk_curve) if x not in pool[:nroots]]
        isk = KM.pool(core.pick(rng, cand), ctx.workdir)
    user_data = core.rand_bytes(rng, ulen)
    constraints = core.pick(rng, [0, 1, 7, 0xFFFFFFFF, rng.getrandbits(32)]) if isk else 0
    ca_flag = isk is None
    forms = [core.pick(rng, V21_BYTES_FORMS + ["obj:pub"]) for _ in kms]
    detail = {"curve": curve, "roots": [k.name for k in kms], "used": used, "isk": isk.name if isk else None, "user_data_len": ulen,
              "constraints": constraints, "via": via, "forms": forms}
    sig = ["cb_v21", curve, nroots, used, isk_curve or "none", ulen, via, case.get("lz", "")]
    os.makedirs(ctx.workdir, exist_ok=True)

    def build_api():
        sp = get_signature_provider(local_file_key=kms[used].path("priv.pem")) if isk else None
        isk_in = None
        if isk:
            isk_in = isk.get(core.pick(rng, ["pub.pem:bytes", "pub.der:bytes", "raw:bytes", "nonca.der:bytes", "obj:pub"]))
        cb = CertBlockV21(root_certs=[k.get(f) for k, f in zip(kms, forms)], ca_flag=ca_flag, used_root_cert=used,
                          constraints=constraints, signature_provider=sp, isk_cert=isk_in, user_data=user_data or None)
        cb.calculate()
        return cb

    def build_cfg():
        cfg = {"mainRootCertId": used, "useIsk": bool(isk)}
        for idx, km in enumerate(kms):
            cfg[f"rootCertificate{idx}File"] = km.path(core.pick(rng, ["pub.pem", "pub.der", "priv.pem", "nonca.pem", "ca.der", "raw"]))
        if isk:
            cfg["signPrivateKey"] = kms[used].path(core.pick(rng, ["priv.pem", "priv.der"]))
            cfg["iskPublicKey"] = isk.path(core.pick(rng, ["pub.pem", "pub.der", "nonca.pem"]))
            cfg["iskCertificateConstraint"] = constraints
            if user_data:
                p = os.path.join(ctx.workdir, "isk_user_data.bin")
                with open(p, "wb") as f:
                    f.write(user_data)
                cfg["iskCertData"] = p
        return CertBlockV21.from_config(_any_record_order(cfg, rng))

    st, cb = attempt(build_api if via == "api" else build_cfg)
    if st != "ok":
        key = "cb-v21/refuses-valid-configuration" if st == "refused" else crash_key(Path("cb-v21", "", None, None, []), forms, cb)
        ctx.violation(key, dict(detail, exception=core.exc_brief(cb)))
        return
    expected_size = cb.expected_size
    data = cb.export()
    ctx.count("cb_v21_roundtrip")
    try:
        r = ref.parse_cert_block_v21(data)
    except ref.Malformed as e:
        ctx.violation("cb-v21/exported-block-malformed", dict(detail, why=str(e)))
        return
    want_rkth = ref.v21_rkth(keys)
    want_rkr = ref.rkr_v21(keys, used, ca_flag)
    bad = 0
    checks = [
        ("header", (r["major"], r["minor"], r["size"]) == (2, 1, len(data)) and expected_size == len(data) == cb.expected_size),
        ("root-key-record", r["rkr"] == want_rkr),
        ("rkth", bytes(cb.rkth) == want_rkth == r["rkth"]),
        ("isk-presence", (r["isk"] is None) == (isk is None)),
    ]
    for name, good in checks:
        if not good:
            bad += 1
            ctx.violation(f"cb-v21/{name}-differs-from-reference" + ("+leading-zero" if case.get("lz") else ""),
                          dict(detail, rkth=cb.rkth, want_rkth=want_rkth, rkr=r["rkr"], want_rkr=want_rkr))
    if isk is not None and r["isk"] is not None:
        if not verify_isk(ctx, detail, data, r, kms[used], isk, user_data, constraints):
            bad += 1
    elif r["end"] != len(data):
        bad += 1
        ctx.violation("cb-v21/block-longer-than-its-content", dict(detail, end=r["end"], length=len(data)))
    # parse(export): identical re-export, same rkth
    st, back = attempt(lambda: CertBlockV21.parse(data))
    if st != "ok":
        ctx.violation("cb-v21/parse-rejects-own-export", dict(detail, exception=core.exc_brief(back)))
        return
    st, again = attempt(back.export)
    if st != "ok" or again != data:
        bad += 1
        ctx.violation("cb-v21/parse-export-not-identical", dict(detail, exception=core.exc_brief(again) if st != "ok" else None))
    if bytes(back.rkth) != want_rkth:
        bad += 1
        ctx.violation("cb-v21/parsed-block-loses-rkth", dict(detail, rkth=back.rkth, want=want_rkth))
    if back.expected_size != len(data):
        bad += 1
        ctx.violation("cb-v21/parsed-block-expected-size", dict(detail, got=back.expected_size, want=len(data)))
    st, back2 = attempt(lambda: CertBlockV21.parse(data + core.rand_bytes(rng, 40)))  # block embedded in an image
    if st == "ok" and (back2.export() != data or bytes(back2.rkth) != want_rkth):
        bad += 1
        ctx.violation("cb-v21/parse-depends-on-trailing-bytes", detail)
    # a second export of the same object must not change the block apart from the (randomised) signature
    data2 = cb.export()
    if data2 != data:
        bad += 1
        ctx.violation("cb-v21/second-export-differs", detail)
    if not bad:
        ctx.ok(sig, n=3, sample={"roots": detail["roots"], "used": used, "isk": detail["isk"], "user_data_len": ulen, "len": len(data), "rkth": want_rkth})


def run_cb_v21_used(case, ctx) -> None:
    """Invariance of the v2.1 RKTH (and table) under the used-root index and under the signer (ISK or root)."""
    from spsdk.crypto.signature_provider import get_signature_provider
    from spsdk.utils.crypto.cert_blocks import CertBlockV21

    rng = ctx.rng
    curve, nroots = case["curve"], case["nroots"]
    pool = list(pki.names(curve))
    rng.shuffle(pool)
    kms = [KM.pool(x, ctx.workdir) for x in pool[:nroots]]
    isk = KM.pool(pool[nroots], ctx.workdir)
    want = ref.v21_rkth([k.key for k in kms])
    seen = 0
    for used in range(nroots):
        for with_isk in (False, True):
            sp = get_signature_provider(local_file_key=kms[used].path("priv.pem")) if with_isk else None
            cb = CertBlockV21(root_certs=[k.get("pub.der:bytes") for k in kms], ca_flag=not with_isk, used_root_cert=used,
                              signature_provider=sp, isk_cert=isk.get("pub.pem:bytes") if with_isk else None)
            cb.calculate()
            blob = cb.export()
            ctx.count("used_index_invariance")
            seen += 1
            got = [bytes(cb.rkth), bytes(CertBlockV21.parse(blob).rkth), ref.parse_cert_block_v21(blob)["rkth"]]
            if any(g != want for g in got):
                ctx.violation("cb-v21/rkth-depends-on-used-root-index-or-signer",
                              {"curve": curve, "roots": [k.name for k in kms], "used": used, "isk": with_isk, "got": got, "want": want})
                return
    ctx.ok(["cb_v21_used", curve, nroots], n=seen, sample={"roots": [k.name for k in kms], "rkth": want, "combinations": seen})


# -------------------------------------------------------------------------------- other workloads
def run_hab_ku(case, ctx) -> None:
    """HAB SRK entries from certificates *with* KeyUsage: keyCertSign => CA flag 0x80 (what CST-made SRK certificates carry)."""
    from spsdk.utils.crypto.rot import Rot

    rng = ctx.rng
    kind, n = case["kind"], case["n"]
    names = list(pki.names(kind))
    rng.shuffle(names)
    names = names[:n]
    os.makedirs(ctx.workdir, exist_ok=True)
    kms, forms = [], []
    for i, nm in enumerate(names):
        km = KM.pool(nm, ctx.workdir)
        ku = case["ku"][i % len(case["ku"])]
        der = make_cert(load_pool_private(nm), f"{nm}-ku{ku}", ca=bool(ku), key_usage=ku, serial=0x7000 + i)
        for stem, blob in (("ca.der", der), ("ca.pem", der_to_pem(der))):  # replaces the pool CA certificate of this KM
            p = os.path.join(ctx.workdir, f"{nm}.ku{ku}.{stem}")
            with open(p, "wb") as f:
                f.write(blob)
            km.files[stem] = p
        kms.append(km)
        forms.append(core.pick(rng, CA_FORMS))
    info = db_info()
    fam = core.pick(rng, info["rot"]["srk_table_hab"])
    paths = [p for p in build_paths(ctx, kms, rng, 1, with_cli=True) if p.rot_type == "srk_table_hab"]
    for p in paths:
        p.canon = "ca.pem:path"
        p.forms = CA_FORMS if not p.name.startswith("cli") else [f for f in CA_FORMS if f.endswith(":path")]
    eval_paths(ctx, "hab_keyusage", kms, paths, rng, case.get("forms", 3))
    # the flag really is part of the value: the same keys without keyCertSign give other fuses
    st, v = attempt(lambda: Rot(fam, "latest", [k.get("ca.der:path") for k in kms]).calculate_hash())
    st0, v0 = attempt(lambda: Rot(fam, "latest", [k.get("nonca.der:path") for k in kms]).calculate_hash())
    if st == st0 == "ok" and any(case["ku"]) and v == v0:
        ctx.violation("rot:srk_table_hab/ca-flag-not-in-fuses", {"keys": names, "ku": case["ku"], "fuses": v})


CHILD = r'''
import json, sys
import spsdk
from spsdk.utils.crypto.rot import Rot
from spsdk.utils.crypto.rkht import RKHTv1, RKHTv21
from spsdk.exceptions import SPSDKError
jobs = json.load(open(sys.argv[1]))
out = []
for j in jobs:
    try:
        if j["path"] == "rot":
            r = Rot(j["family"], "latest", j["keys"])
            out.append([r.calculate_hash().hex(), r.export().hex()])
        else:
            t = {"v1": RKHTv1, "v21": RKHTv21}[j["path"]].from_keys(j["keys"])
            out.append([t.rkth().hex(), t.export().hex()])
    except SPSDKError as e:
        out.append(["refused", type(e).__name__])
print("RESULT " + json.dumps({"file": spsdk.__file__, "out": out}))
'''


def run_process(case, ctx) -> None:
    """The same key sets through two fresh interpreter processes (own cold cache folders, different hash seeds)."""
    from spsdk.utils.crypto.rot import Rot

    rng = ctx.rng
    info = db_info()
    os.makedirs(ctx.workdir, exist_ok=True)
    jobs, wants, metas = [], [], []
    for _ in range(case["n"]):
        rot_type = core.pick(rng, ["cert_block_1", "cert_block_21", "srk_table_ahab", "srk_table_ahab_v2", "srk_table_hab"])
        fam = core.pick(rng, info["rot"][rot_type])
        kind = core.pick(rng, RSA_KINDS if rot_type == "cert_block_1" else (ECC_KINDS[:2] if rot_type == "cert_block_21" else RSA_KINDS + ECC_KINDS))
        n = 4 if rot_type.startswith("srk_table_ahab") else rng.randrange(1, 5)
        names = list(pki.names(kind))
        rng.shuffle(names)
        kms = [KM.pool(x, ctx.workdir) for x in names[:n]]
        if rot_type == "srk_table_hab":
            forms = [core.pick(rng, [f for f in CERT_FORMS if f.endswith(":path")]) for _ in kms]
        elif rot_type.startswith("srk_table_ahab"):
            cls = core.pick(rng, [BARE_FORMS, CA_FORMS])
            forms = [core.pick(rng, [f for f in cls if f.endswith(":path")]) for _ in kms]
        else:
            forms = [core.pick(rng, PATH_FORMS) for _ in kms]
        jobs.append({"path": "rot", "family": fam, "keys": [k.get(f, stable=True) for k, f in zip(kms, forms)]})
        metas.append({"rot_type": rot_type, "family": fam, "keys": [k.name for k in kms], "forms": forms})
        try:
            wants.append(expected(rot_type, kms, forms))
        except ref.Unsupported:
            wants.append(None)
    jf = os.path.join(ctx.workdir, "proc_jobs.json")
    with open(jf, "w", encoding="utf-8") as f:
        json.dump(jobs, f)
    sf = os.path.join(ctx.workdir, "proc_child.py")
    with open(sf, "w", encoding="utf-8") as f:
        f.write(CHILD)
    outs = []
    for k in range(2):
        env = dict(os.environ)
        env.update({"PYTHONPATH": core.repo_root(), "SPSDK_CACHE_FOLDER": os.path.join(ctx.workdir, f"proc_cache{k}"),
                    "PYTHONHASHSEED": str(101 + 7 * k), "SPSDK_DEBUG_LOGGING_DISABLED": "1"})
        env.pop(core.GUARD, None)
        pr = subprocess.run(["/venv/bin/python", sf, jf], env=env, capture_output=True, text=True, timeout=800, check=False, cwd=ctx.workdir)
        line = [ln for ln in pr.stdout.splitlines() if ln.startswith("RESULT ")]
        if pr.returncode != 0 or not line:
            raise core.Inconclusive(f"child interpreter failed rc={pr.returncode}: {pr.stderr[-300:]}")
        res = json.loads(line[-1][7:])
        if not os.path.abspath(res["file"]).startswith(core.repo_root() + os.sep):
            raise core.Inconclusive("child imported spsdk from " + res["file"])
        outs.append(res["out"])
    good = 0
    for i, (job, want, meta) in enumerate(zip(jobs, wants, metas)):
        a, b = outs[0][i], outs[1][i]
        st, here = attempt(lambda: (lambda r: [r.calculate_hash().hex(), r.export().hex()])(Rot(job["family"], "latest", job["keys"])))
        ctx.count("fresh_process")
        if a != b:
            ctx.violation("rot/differs-between-two-fresh-processes", dict(meta, first=a, second=b))
        elif a[0] == "refused":
            if st == "ok":
                ctx.violation("rot/refused-in-fresh-process-but-computed-in-worker", dict(meta, child=a))
            else:
                ctx.refused(["process", meta["rot_type"], "refused"], f"{meta['rot_type']} refused in both processes")
        elif st != "ok" or here != a:
            ctx.violation("rot/fresh-process-differs-from-worker", dict(meta, child=a, worker=here if st == "ok" else core.exc_brief(here)))
        elif want is not None and (a[0] != want[0].hex() or a[1] != want[1].hex()):
            ctx.violation(f"rot:{meta['rot_type']}/hash-differs-from-reference", dict(meta, got=a[0], want=want[0]))
        else:
            good += 1
    if good:
        ctx.ok(["process", case["k"]], n=good, sample={"jobs": len(jobs), "agree": good, "first": metas[0], "hash": outs[0][0][0]})


def eval_pfr_value(ctx, kms: list) -> None:
    """The RoT hash handed to the CMPA as a VALUE (``export(rotkh=...)`` - what `pfr generate-binary` does with a binary
    certificate block - and the hexadecimal string pasted into the configuration): in every PFR family the ROTKH field of
    the exported page is the hash, left aligned and zero padded to the width of the register."""
    from spsdk.pfr.pfr import CMPA

    info = db_info()
    keys = [k.key for k in kms]
    for fam in info["pfr"]:
        t = info["fam_type"][fam]
        try:
            h = ref.v1_rkth(keys) if t == "cert_block_1" else ref.v21_rkth(keys)
        except ref.Unsupported:
            continue
        for how in ("export-argument", "configuration-string"):
            c = CMPA(family=fam)
            reg = c.registers.find_reg("ROTKH")
            width = reg.width // 8
            if len(h) > width:
                continue
            try:
                if how == "export-argument":
                    blob = c.export(rotkh=h, draw=False)
                else:
                    c.set_config({"ROTKH": h.hex()})
                    blob = c.export(draw=False)
            except Exception as e:  # pylint: disable=broad-except
                if not core.is_refusal(e) and core.origin_of(e) != "repo":
                    raise
                ctx.violation(f"pfr-rotkh-value/{how}:{type(e).__name__}", {"family": fam, "hash_len": len(h), "exception": core.exc_brief(e)})
                continue
            ctx.count("pfr_rotkh_value")
            field = blob[reg.offset:reg.offset + width]
            if field != h.ljust(width, b"\x00"):
                ctx.violation(f"pfr-rotkh-value-misplaced:{how}", {"family": fam, "hash_len": len(h), "register_bytes": width,
                                                                  "field": field, "hash": h})


def run_keyset(case, ctx) -> None:
    rng = ctx.rng
    kms = [KM.pool(x, ctx.workdir) for x in case["keys"]]
    if case.get("pfr_value"):
        eval_pfr_value(ctx, kms)
    paths = build_paths(ctx, kms, rng, case.get("fams", 1), with_cli=case.get("cli", True))
    only = case.get("only_forms")
    if only:  # directed witness: exactly these input forms, at every position
        for p in paths:
            p.forms = [f for f in p.forms if f in only]
    eval_paths(ctx, "witness" if only else "keyset", kms, paths, rng, case.get("forms", 3))
    eval_dc(ctx, "keyset", kms, rng)


def run_lz(case, ctx) -> None:
    """Key sets containing constructed keys whose X and/or Y coordinate starts with a zero byte."""
    rng = ctx.rng
    curve, n = case["curve"], case["n"]
    pool = list(pki.names(curve))
    rng.shuffle(pool)
    kms = [KM.pool(x, ctx.workdir) for x in pool[:n]]
    for i, (pos, which) in enumerate(case["lz"]):
        km = construct_lz_key(rng, curve, which, ctx.workdir, f"{i}")
        kms[pos] = km
        ctx.count("leading_zero_keys")
        ctx.note("leading_zero_draws", {"curve": curve, "which": which, "draws": km.draws})
        raw = km.get("raw:bytes")
        if len(raw) != 2 * CURVE_SIZE[curve] or raw != ref.raw_public(km.key):
            ctx.violation("nxp-raw-export/leading-zero-coordinate-not-fixed-width", {"curve": curve, "which": which, "raw": raw, "want": ref.raw_public(km.key)})
    tag = "+".join(w for _, w in case["lz"])
    paths = build_paths(ctx, kms, rng, case.get("fams", 1), with_cli=case.get("cli", True))
    eval_paths(ctx, "leading_zero", kms, paths, rng, case.get("forms", 4), lz=tag)
    eval_dc(ctx, "leading_zero", kms, rng, lz=tag)


def selftest(ctx):
    res = {"rot": ref.selftest(os.path.join(core.repo_root(), "tests"), pki=pki), "ecdsa": ref_ecdsa.selftest()}
    # reference parsers on hand-made blocks
    k = [refkey(pki.numbers(nm)) for nm in pki.names("p256")[:3]]
    rkr = ref.rkr_v21(k, 2, True)
    blk = struct.pack("<4s2HL", b"chdr", 1, 2, 8 + len(rkr)) + rkr
    r = ref.parse_cert_block_v21(blk)
    assert r["rkth"] == ref.v21_rkth(k) and r["used"] == 2 and r["count"] == 3 and r["isk"] is None and r["end"] == len(blk)
    bad = bytearray(blk)
    bad[16 + 2 * 32] ^= 1  # the used slot (index 2) must be the hash of the record's public key
    try:
        ref.parse_cert_block_v21(bytes(bad))
        raise AssertionError("reference v2.1 reader accepts a used key that is not in its slot")
    except ref.Malformed:
        pass
    res["parsers"] = 2
    return res


def cases(tier, seed):
    rng = random.Random(f"{seed}/C03/cases")
    thorough = tier == "thorough"
    forms = 6 if thorough else 3
    fams = 2 if thorough else 1
    # 1. key sets: every kind, 1..4 keys; all orders for <= 3 keys of a fixed subset, sampled 4-key sets
    for kind in RSA_KINDS + ECC_KINDS:
        pool = pki.names(kind)
        for n in (1, 2, 3, 4):
            base = rng.sample(pool, n)
            orders = list(itertools.permutations(base)) if n <= 3 else [tuple(base), tuple(reversed(base))]
            if not thorough:
                orders = orders[:1] if n != 2 else orders[:2]
            for j, o in enumerate(orders):
                yield {"kind": "keyset", "keys": list(o), "forms": forms, "fams": fams, "cli": True,
                       "pfr_value": j == 0 and kind != "p521" and (thorough or n in (1, 4))}
            extra = (6 if n == 4 else 3) if thorough else (1 if n == 4 else 0)
            for _ in range(extra):
                yield {"kind": "keyset", "keys": rng.sample(pool, n), "forms": forms, "fams": fams, "cli": thorough}
    for part in range(8):  # (spread over the shards)
        yield {"kind": "family_consistency", "part": part, "of": 8}
    yield {"kind": "cb_v1_zero_tail"}
    # directed witnesses (deterministic in every run): bytearray input and a CA `Certificate` object at every position
    for keys in (["rsa2048_0", "rsa2048_1"], ["p256_0", "p256_1", "p256_2", "p256_3"], ["p521_0", "p521_1"]):
        yield {"kind": "keyset", "keys": keys, "forms": 99, "fams": 1, "cli": False,
               "only_forms": ["pub.der:bytearray", "ca.der:bytearray", "obj:ca", "obj:nonca", "obj:pub", "obj:priv"]}
    # mixed sets (RSA sizes mixed, curves mixed, RSA + ECC, a repeated key)
    mixes = [["rsa2048_0", "rsa4096_1"], ["rsa3072_0", "rsa2048_2", "rsa4096_0", "rsa2048_1"], ["p256_0", "p384_0"], ["rsa2048_0", "p256_1"],
             ["p256_2", "p256_2"], ["rsa2048_3", "rsa2048_3", "rsa2048_4", "rsa2048_3"], ["p521_0", "p256_0", "p384_1", "p256_1"]]
    for m in mixes:
        yield {"kind": "keyset", "keys": m, "forms": 2 if not thorough else 6, "fams": 1, "cli": False}
    # 2. leading-zero coordinates
    lz_specs = []
    for curve in ECC_KINDS:
        lz_specs += [(curve, 1, [(0, "x")]), (curve, 4, [(3, "y")]), (curve, 2, [(1, "x"), (0, "y")]), (curve, 4, [(0, "x"), (2, "x")])]
        lz_specs += [(curve, 3, [(1, "xy" if curve == "p521" else "x")])]
    if thorough:
        lz_specs = lz_specs * 4
    for i, (curve, n, lz) in enumerate(lz_specs):
        yield {"kind": "lz", "curve": curve, "n": n, "lz": lz, "forms": 6 if thorough else 4, "fams": fams, "cli": i % 2 == 0, "k": i}
    # 3. certificate block v1: depth x root x used index x count x alignment x construction
    v1 = []
    for kind in RSA_KINDS:
        for depth in (1, 2, 3):
            for nroots in (1, 2, 3, 4):
                for used in range(nroots):
                    v1.append((kind, depth, nroots, used))
    if not thorough:
        v1 = rng.sample(v1, 36)
    for i, (kind, depth, nroots, used) in enumerate(v1):
        reps = 2 if thorough else 1
        for r in range(reps):
            yield {"kind": "cb_v1", "rsa": kind, "depth": depth, "nroots": nroots, "used": used, "root": rng.randrange(4),
                   "alignment": [16, 4][(i + r) % 2], "via": ["api", "cfg"][(i // 2 + r) % 2]}
    # 4. certificate block v2.1 grid
    grid = []
    for curve in ("p256", "p384"):
        other = "p384" if curve == "p256" else "p256"
        for nroots in (1, 2, 3, 4):
            for used in range(nroots):
                for isk in (None, curve, other):
                    for ulen in (USER_DATA_LENGTHS if isk else [0]):
                        grid.append((curve, nroots, used, isk, ulen))
    if not thorough:
        keep = [g for g in grid if g[3] is None]
        rest = [g for g in grid if g[3] is not None]
        grid = rng.sample(keep, 8) + rng.sample(rest, 56)
    for i, (curve, nroots, used, isk, ulen) in enumerate(grid):
        yield {"kind": "cb_v21", "curve": curve, "nroots": nroots, "used": used, "isk": isk, "ulen": ulen, "via": ["api", "cfg"][i % 2]}
    for i, (curve, which) in enumerate([("p256", "x"), ("p384", "y"), ("p256", "y"), ("p384", "x")] * (3 if thorough else 1)):
        yield {"kind": "cb_v21", "curve": curve, "nroots": 1 + i % 4, "used": i % (1 + i % 4), "isk": [curve, None][i % 2],
               "ulen": [16, 0][i % 2], "via": "api", "lz": which}
    for curve in ("p256", "p384"):
        for nroots in ((1, 2, 3, 4) if thorough else (2, 4)):
            yield {"kind": "cb_v21_used", "curve": curve, "nroots": nroots}
    # 5. HAB certificates with KeyUsage
    ku = [("rsa2048", 4, [1]), ("p256", 4, [1]), ("rsa4096", 2, [1, 0]), ("p384", 3, [0]), ("p521", 1, [1])]
    if thorough:
        ku += [("rsa3072", 4, [1]), ("p521", 4, [1, 1, 0, 1]), ("rsa2048", 1, [0]), ("p384", 4, [1])]
    for kind, n, k in ku:
        yield {"kind": "hab_ku", "kind_": kind, "n": n, "ku": k, "forms": 99 if thorough else 3}
    # 6. fresh interpreter processes
    for k in range(6 if thorough else 1):
        yield {"kind": "process", "k": k, "n": 40 if thorough else 24}


def run_cb_v1_zero_tail(case, ctx) -> None:
    """A certificate whose own DER ends in a zero byte (1 in 256) and whose length is no multiple of four: in the block it
    is followed by zero padding, and the block must still come back unchanged."""
    from spsdk.utils.crypto.cert_blocks import CertBlockV1

    name = "rsa2048_1"
    km = KM.pool(name, ctx.workdir)
    priv = load_pool_private(name)
    der = None
    for serial in range(0x9000, 0x9000 + 4000):
        cand = make_cert(priv, f"tail-{serial}", ca=False, serial=serial)
        if cand[-1] == 0 and len(cand) % 4:
            der = cand
            break
    if der is None:
        raise core.Inconclusive("no certificate ending in a zero byte found")
    st, res = attempt(lambda: (lambda cb: (cb.add_certificate(der), cb.set_root_key_hash(0, ref.key_hash(km.key)), cb.export())[2])(CertBlockV1(build_number=7)))
    if st != "ok":
        ctx.violation("cb-v1/zero-tail-certificate:build-" + st, {"error": core.exc_brief(res), "der_len": len(der)})
        return
    data = res
    st, back = attempt(lambda: CertBlockV1.parse(data).export())
    ctx.count("cb_v1_zero_tail")
    if st != "ok":
        ctx.violation("cb-v1/own-export-not-parsable:certificate-ends-in-zero-byte", {"error": core.exc_brief(back), "der_len": len(der), "der_tail": der[-8:]})
    elif back != data:
        ctx.violation("cb-v1/parse-export-changes-block:certificate-ends-in-zero-byte", {"der_len": len(der), "first_diff": next((i for i, (a, b) in enumerate(zip(back, data)) if a != b), -1)})
    else:
        ctx.ok(["cb_v1", "zero-tail-certificate"], sample={"der_len": len(der), "der_tail": der[-4:]})


def run_family_consistency(case, ctx) -> None:
    """Every family x revision: the value `Rot` (and so `nxpcrypto rot`) reports is the root-of-trust value of the certificate
    block CLASS the family's images carry (version 1 or 2.1) - decided by the classes' own family lists, not by the
    `rot_type` line of the same data file."""
    from spsdk.utils.crypto.cert_blocks import CertBlock, CertBlockV1, CertBlockV21
    from spsdk.utils.crypto.rot import Rot
    from spsdk.utils.database import DatabaseManager, get_device, get_families

    rng = ctx.rng
    for fam in sorted(get_families(DatabaseManager.CERT_BLOCK))[case.get("part", 0)::case.get("of", 1)]:
        try:
            cls = CertBlock.get_cert_block_class(fam)
        except Exception:  # pylint: disable=broad-except
            continue
        if cls not in (CertBlockV1, CertBlockV21):
            continue
        kind = "rsa2048" if cls is CertBlockV1 else core.pick(rng, ["p256", "p256", "p384"])
        n = core.pick(rng, [1, 2, 3])
        kms = [KM.pool(x, ctx.workdir) for x in rng.sample(pki.names(kind), n)]
        keys = [k.key for k in kms]
        want = ref.v1_rkth(keys) if cls is CertBlockV1 else ref.v21_rkth(keys)
        for rev in ["latest"] + [r for r in get_device(fam).revisions.revision_names() if rng.random() < 0.3]:
            st, got = attempt(lambda: Rot(fam, rev, [k.get("pub.pem:path") for k in kms]).calculate_hash())
            ctx.count("family_class_consistency")
            if st == "refused":
                ctx.refused(["family-consistency", cls.__name__, kind], f"{fam}/{rev}: {core.exc_brief(got)}")
                ctx.violation("rot/refuses-the-keys-of-the-family's-certificate-block-class",
                              {"family": fam, "revision": rev, "class": cls.__name__, "keys": [k.name for k in kms], "error": core.exc_brief(got)})
            elif st == "crash":
                ctx.violation(f"rot/escape:{type(got).__name__}", {"family": fam, "revision": rev, "exception": core.exc_brief(got)})
            elif got != want:
                ctx.violation("rot/differs-from-the-value-of-the-family's-certificate-block-class",
                              {"family": fam, "revision": rev, "class": cls.__name__, "keys": [k.name for k in kms], "rot": got, "class_value": want})
            else:
                ctx.ok(["family-consistency", cls.__name__, kind, n], n=1, sample={"family": fam, "revision": rev})


def run_case(case, ctx):
    kind = case["kind"]
    if kind == "keyset":
        return run_keyset(case, ctx)
    if kind == "lz":
        return run_lz(case, ctx)
    if kind == "family_consistency":
        return run_family_consistency(case, ctx)
    if kind == "cb_v1_zero_tail":
        return run_cb_v1_zero_tail(case, ctx)
    if kind == "cb_v1":
        return run_cb_v1(case, ctx)
    if kind == "cb_v21":
        return run_cb_v21(case, ctx)
    if kind == "cb_v21_used":
        return run_cb_v21_used(case, ctx)
    if kind == "hab_ku":
        c = dict(case)
        c["kind"] = case["kind_"]
        return run_hab_ku(c, ctx)
    if kind == "process":
        return run_process(case, ctx)
    raise core.Inconclusive(f"unknown case kind {kind}")
