"""C06 - AHAB image: containers verify, images hash and decrypt, offsets never collide.

Runtime monitoring: the real ``AHABImage.load_from_config / update_fields / verify / export / parse`` and
the ``nxpimage ahab export|parse|verify`` commands are driven with generated configurations for every
AHAB family / revision / container version / target memory the database under test offers; every
exported image is judged by (1) SPSDK's own verifier before export and after parse, (2) the parse /
re-export / equality laws and (3) the independent container walker ``vf.refs.ahab_ref`` (hashlib +
pure-Python ECDSA / RSA-PSS / AES-CBC).  Single-bit corruptions of authenticated bytes must be reported
by SPSDK (parse error or verifier ERROR on the re-parsed image) and by the walker.
"""
from __future__ import annotations

import functools
import hashlib
import os
import shutil
import struct

from vf import core, pki
from vf.refs import ahab_ref as R

ID = "C06"
ROTATING_PKI = 0.3  # fraction of the key / certificate paths that are rotating slots (vf/pki.py)
DECOY_CWD = True  # the worker runs in a directory that holds other bytes under every input file name (vf/worker.py)
LEVEL = "exploration"
TECHNIQUE = ("runtime monitoring: SPSDK verifier + parse/re-export laws + independent container walker "
             "(hashlib, pure-Python ECDSA/RSA-PSS/AES-CBC) over generated configurations; single-bit corruption sweeps")
RULE = (
    "cases = every AHAB (family, revision, container version) of the database x every target memory of the schema x k layouts: "
    "1..max containers x 1..max images (1 B..64 KiB, automatic / explicit offsets, gaps, size alignments), core id / image type / "
    "hash / boot flags / meta data from the database enums, SRK set none/oem with 4-key tables of P-256/384/521 and RSA-2048/3072/4096 "
    "(public / private / CA / non-CA certificate files, PEM and DER), every used_srk_id, revoke masks not containing the signer, "
    "fuse / SW version boundaries, optional certificate (container version 2) and DEK blob with encrypted images; then bit flips in every "
    "authenticated region; CLI export/parse/verify on a sample; directed witnesses. A case signature is (container version, target memory, "
    "key kind, certificate, blob, container and image count classes, outcome); non-trivial = an image was exported and judged."
)
ASSUMPTIONS = [
    "container version 1 slots are 0x400 apart, version 2 slots 0x4000 apart (format constant, passed to the walker by the harness)",
    "a certificate carrying the 'container' permission makes its key the verification key of the container; otherwise the used SRK verifies",
    "warnings of the verifier are not errors",
    "SPSDK demands the CA bit of the certified key to equal the CA bit of the SRK records; the generator follows that rule (a certified key "
    "without CA bit under CA SRKs is reported by SPSDK as an error and is not generated)",
    "an omitted certificate permission_data / uuid is the same as the all-zero fixed-width field it is exported as",
    "a corruption that turns the 4 header bytes of a non-first container into 'not a container header' makes that container disappear; "
    "no per-container signature can report that and it is tolerated (counted as flip_dropped); likewise the one flip that turns the SRK-set field into 'none' is not demanded",
    "a non-SPSDK exception raised by parse()/verify() on a *corrupted* image counts as 'reported' (listed in the evidence), never on a valid image",
    "out-of-range fuse / SW versions, used_srk_id > 3 and revoke masks > 15 are outside the property (refusals are counted, not judged)",
    "SM3 / SHA-3 / SHAKE image hashes and SM2 / post-quantum signatures are outside the walker; such images are judged by the other clauses only",
]
REQUIRED_COUNTERS = ["built", "verify_clean_pre", "walker_accepted", "signatures_verified", "parse_equal", "verify_clean_post",
                     "reexport_identical", "srk_hash_checked", "flips_judged", "cli_runs", "encrypted_images_decrypted",
                     "second_exports_judged", "second_srk_tables"]
CASE_TIMEOUT_S = 1800
WATCHDOG_S = {"quick": 1500, "thorough": 7200}

KINDS = ["p256", "p384", "p521", "rsa2048", "rsa3072", "rsa4096"]
SIZE_CLASSES = [1, 2, 3, 4, 5, 15, 16, 17, 31, 32, 33, 255, 256, 511, 512, 513, 1023, 1024, 1025, 2047, 2048, 2049, 4095, 4096, 4097,
                8192, 12345, 16384, 32768, 65535, 65536]
START_PLAN = {1: (0x2000, 0x1C00), 2: (0xC000, 0xBC00)}  # only used to *plan* explicit offsets (standard, NAND)
MEM_ALIGN = {"serial_downloader": 512, "nor": 1024, "standard": 1024, "nand_2k": 2048, "nand_4k": 4096}

K_V2_RSA = "ahab-v2-rsa-srk-record-exponent-length-compared-with-modulus-length"
K_V2_RSA_CERT = "ahab-v2-rsa-certificate-signature-verified-without-pss"
K_V1_CERT = "ahab-v1-certificate-attributeerror"
K_CHECK_ALL = "ahab-v2-check-all-signatures-written-to-gdet-bits"
K_RSA_PROVIDER = "ahab-rsa-signature-provider-string-drops-pss-padding"
K_ENC_PAD = "ahab-encrypted-image-size-alignment-pads-ciphertext"
K_CLI_SRK_HASH = "ahab-v2-single-srk-table-srk-hash-index-error-in-cli-export"
K_REEXPORT = "ahab-container-signature-verified-over-reexport-not-file-bytes"
K_REEXPORT_CERT = "ahab-certificate-signature-verified-over-reexport-not-file-bytes"


# ------------------------------------------------------------------------------------------
# database-driven enumeration
@functools.lru_cache(None)
def _db_info():
    """Everything the generator needs, read from the database / schema under test."""
    from spsdk.image.ahab.ahab_certificate import AhabCertificate
    from spsdk.image.ahab.ahab_image import AHABImage
    from spsdk.utils.database import DatabaseManager, get_db, get_schema_file

    A = DatabaseManager.AHAB
    sch = get_schema_file(A)
    props = sch["whole_ahab_image"]["properties"]
    cont = props["containers"]["items"]["oneOf"][1]["properties"]["container"]["properties"]
    info = {
        "mems": list(props["target_memory"]["enum"]),
        "gdet": list(cont["gdet_runtime_behavior"]["enum"]),
        "check_all": list(cont["check_all_signatures"]["enum"]),
        "dek_sizes": list(cont["blob"]["properties"]["dek_key_size"]["enum"]),
        "cert_perms": list(sch["ahab_certificate"]["properties"]["permissions"]["items"]["enum"]),
        "cert_families": list(AhabCertificate.get_supported_families()),
        "combos": [],
        "dev": {},
    }
    for fam in sorted(AHABImage.get_supported_families()):
        for rev in get_db(fam).device.revisions.revision_names():
            db = get_db(fam, rev)
            cores = {v[1]: v[0] for v in db.get_dict(A, "core_ids").values()}
            types = {g: {v[1]: v[0] for v in d.values()} for g, d in db.get_dict(A, "image_types").items()}
            mapping = db.get_dict(A, "image_types_mapping")
            ctypes = list(db.get_list(A, "container_types"))
            info["dev"][f"{fam}/{rev}"] = {
                "cmax": db.get_int(A, "containers_max_cnt"), "imax": db.get_int(A, "oem_images_max_cnt"),
                "csa": db.get_int(A, "container_image_size_alignment", 1), "minal": db.get_int(A, "valid_offset_minimal_alignment", 4),
                "empty_hash": db.get_bool(A, "allow_empty_hash"), "cores": cores, "types": types, "mapping": mapping, "ctypes": ctypes,
            }
            for cv in ctypes:
                info["combos"].append((fam, rev, cv))
    return info


def _hash_labels(cver: int):
    from spsdk.image.ahab.ahab_data import AHABSignHashAlgorithmV1, AHABSignHashAlgorithmV2

    return [x.lower() for x in (AHABSignHashAlgorithmV2 if cver == 2 else AHABSignHashAlgorithmV1).labels()]


def _type_group(dev: dict, core_tag: int) -> str:
    grp = "application"
    for k, v in dev["mapping"].items():
        if core_tag in v:
            grp = k
    return grp


def selftest(ctx):
    """Walker self-test on ground truth SPSDK's current code did not produce in this run: the stored sample binaries."""
    from vf.refs import ecdsa, modes, rsa

    res = {"ahab_ref": R.selftest(), "rsa": rsa.selftest(), "modes": modes.selftest(), "ecdsa": ecdsa.selftest()}
    d = os.path.join(core.repo_root(), "tests", "nxpimage", "data", "ahab")
    # (file, slot, containers, [srk_set per container], signatures that must verify, DEKs)
    samples = [
        ("cntr_signed_ctcm_cm33.bin", 0x400, 2, ["nxp", "oem"], 2, None),
        ("cntr_signed_ctcm_cm33_img.bin", 0x400, 2, ["nxp", "oem"], 2, None),
        ("cntr_signed_ctcm_cm33_nx.bin", 0x400, 2, ["nxp", "oem"], 2, None),
        ("cntr_signed_ctcm_cm33_sb.bin", 0x400, 2, ["nxp", "oem"], 2, None),
        ("cntr_signed_ctcm_cm33_sb_mx93.bin", 0x400, 2, ["nxp", "oem"], 2, None),
        ("cntr_signed_ctcm_cm33_nand.bin", 0x400, 2, ["nxp", "oem"], 2, None),
        ("ctcm_cm33_signed_img.bin", 0x400, 2, ["nxp", "oem"], 2, None),
        ("cntr_encrypted_ctcm_cm33.bin", 0x400, 2, ["nxp", "none"], 1, {1: bytes(range(16))}),
        ("rt1189_fake_ele_fw.bin", 0x400, 1, ["nxp"], 1, None),
        ("test_parse_ahab.bin", 0x400, 2, ["none", "none"], 0, None),
        ("cntr_ctcm_cm33_img.bin", 0x400, 1, ["none"], 0, None),
        ("config_ctcm_gdet.bin", 0x400, 1, ["none"], 0, None),
        ("ahab_mx95_dilithium3.bin", 0x4000, 1, ["oem"], 1, None),       # ECDSA signature #0 judged, Dilithium #1 unsupported
        ("ahab_mx95_dilithium3_cert.bin", 0x4000, 1, ["oem"], 1, None),  # certificate: container signed by the certified key
    ]
    accepted = 0
    for name, slot, n, sets, nsig, deks in samples:
        p = os.path.join(d, name)
        if not os.path.exists(p):
            raise AssertionError(f"sample {name} missing")
        with open(p, "rb") as f:
            data = f.read()
        try:
            rep = R.walk_image(data, [slot * i for i in range(4)], count=n, deks=deks)
        except R.Reject as e:
            raise AssertionError(f"walker rejects the stored sample {name}: {e.reason} {e.detail}") from e
        cs = rep["containers"]
        if [c["srk_set"] for c in cs] != sets or sum(1 for c in cs if c["signature_ok"]) != nsig:
            raise AssertionError(f"walker reads {name} differently: {[c['srk_set'] for c in cs]} {[c['signature_ok'] for c in cs]}")
        if deks:
            for ci in deks:
                if not any(e["plain"] is not None for e in cs[ci]["images"]):
                    raise AssertionError(f"{name}: nothing decrypted")
        accepted += 1
        # a corrupted signed byte / image byte of the sample must be rejected
        c = cs[-1]
        if c.get("unsupported"):
            continue  # a post-quantum second signature cannot be judged by the walker
        regs = R.authenticated_regions(c)
        for s, e, rname in regs[:: max(1, len(regs) // 6)]:
            bad = bytearray(data)
            bad[s] ^= 0x10
            try:
                R.walk_image(bytes(bad), [slot * i for i in range(4)], count=n, deks=deks)
            except R.Reject:
                continue
            raise AssertionError(f"walker accepts {name} with a flipped bit in {rname} at {s:#x}")
    with open(os.path.join(d, "test_parse_ahab_err.bin"), "rb") as f:
        try:
            R.walk_image(f.read(), [0, 0x400], count=2)
            raise AssertionError("walker accepts test_parse_ahab_err.bin")
        except R.Reject:
            pass
    res["nxp_samples_accepted"] = accepted
    return res


def cases(tier, seed):
    info = _db_info()
    thorough = tier == "thorough"
    for w in ("v2_rsa", "v1_certificate", "check_all_signatures", "reserved_byte_flip", "certificate_reserved_flip", "revoked_signer",
              "version_bounds", "overlap_refused", "rsa_in_non_last_v1_container", "max_layout", "cli_v2_single_table",
              "rsa_signature_provider", "encrypted_with_size_alignment"):
        yield {"kind": "witness", "what": w}
    per = 60 if thorough else 8
    for fam, rev, cv in info["combos"]:
        for mem in info["mems"]:
            for k in range(per):
                yield {"kind": "build", "family": fam, "revision": rev, "cver": cv, "mem": mem, "k": k}
    for j in range(250 if thorough else 16):
        yield {"kind": "cli", "j": j}
    for j in range(150 if thorough else 8):
        yield {"kind": "sweep", "j": j}


# ------------------------------------------------------------------------------------------
# generator: a JSON-able *spec* (what is asked for), later materialised into files + a configuration
def _align(x: int, a: int) -> int:
    return (x + a - 1) // a * a


def _pick(rng, seq):
    seq = list(seq)
    return seq[rng.randrange(len(seq))]


def _gen_image_spec(rng, dev, cver, blob, small, hashes):
    core_label = _pick(rng, sorted(dev["cores"]))
    grp = _type_group(dev, dev["cores"][core_label])
    tlabel = _pick(rng, sorted(dev["types"][grp]))
    r = rng.random()
    if r < 0.9:
        h = _pick(rng, ["sha256", "sha384", "sha512"])
    else:
        h = _pick(rng, hashes)
    size = _pick(rng, SIZE_CLASSES[:19] if small else SIZE_CLASSES) if rng.random() < 0.8 else rng.randrange(1, 65537 if not small else 3000)
    img = {
        "size": size, "core": core_label, "type": tlabel, "group": grp, "hash": h,
        "enc": bool(blob) and rng.random() < 0.6,
        "load": _pick(rng, [0, 1, 0x1FFC0000, 0x20480000, 0xFFFFFFFF, 0x100000000, 2**64 - 1, rng.getrandbits(64), rng.getrandbits(32)]),
        "entry": _pick(rng, [0, 0x1FFC0001, 0xFFFFFFFF, 2**64 - 1, rng.getrandbits(64), rng.getrandbits(32)]),
        "boot_flags": _pick(rng, [0, 0, 1, 0x7FFF, rng.getrandbits(15)]),
        "cpu": _pick(rng, [0, 0, 1, 1023, rng.getrandbits(10)]), "mu": _pick(rng, [0, 0, 1, 1023, rng.getrandbits(10)]),
        "part": _pick(rng, [0, 0, 1, 255, rng.getrandbits(8)]),
        "gap": _pick(rng, [0x400, 0x1000, 0x2000]) if rng.random() < 0.1 else 0,
        "size_align": _pick(rng, [1, 16, 1024, 4096]) if rng.random() < 0.1 else None,
        "explicit": False, "offset": 0,
        "fmt": _pick(rng, ["num", "hex", "hex_"]),
    }
    return img


def _model_size(dev, img) -> int:
    s = _align(img["size"], max(1, dev["csa"]))
    if img["size_align"]:
        return _align(s, img["size_align"])
    return _align(s, 4 if img["type"] == "ele" else 1)


def _img_alignment(dev, mem, img) -> int:
    a = 4 if img["type"] == "ele" else max(MEM_ALIGN[mem], 1024)
    return max(a, dev["minal"])


def gen_spec(rng, info, fam, rev, cver, mem, k, tier, force=None):
    """force: dict of overrides used by witnesses / CLI / sweep cases."""
    force = force or {}
    dev = info["dev"][f"{fam}/{rev}"]
    cmax, imax = dev["cmax"], dev["imax"]
    small = force.get("small", tier != "thorough" and rng.random() < 0.7)
    ncont = force.get("ncont") or (1 + k % cmax if k < cmax else rng.randint(1, cmax))
    hashes = _hash_labels(cver)
    spec = {"family": fam, "revision": rev, "cver": cver, "mem": mem, "containers": [],
            "pass_version_key": len(dev["ctypes"]) > 1 or rng.random() < 0.3,
            "mem_key": _pick(rng, ["target_memory", "target_memory", "image_type"]) if mem in ("serial_downloader", "nand_2k", "nor") else "target_memory"}
    budget = 8 if small else 14
    for ci in range(ncont):
        last = ci == ncont - 1
        r = rng.random()
        if "kind" in force:
            kind = force["kind"]
        elif r < 0.15:
            kind = None
        elif cver == 1 and not last:
            kind = _pick(rng, KINDS[3:]) if rng.random() < 0.06 else _pick(rng, KINDS[:3])
        else:
            kind = _pick(rng, KINDS)
        used = force.get("used", rng.randrange(4))
        c = {
            "kind": kind, "used": used, "mask": rng.getrandbits(4) & ~(1 << used) & 0xF if rng.random() < 0.6 else 0,
            "fuse": _pick(rng, [0, 1, 2, 127, 128, 254, 255, rng.randrange(256)]),
            "sw": _pick(rng, [0, 1, 255, 256, 32767, 32768, 65534, 65535, rng.randrange(65536)]),
            "gdet": _pick(rng, info["gdet"]) if rng.random() < 0.5 else None,
            "check_all": (_pick(rng, info["check_all"]) if rng.random() < 0.3 else None) if cver == 2 else None,
            "flag_ca": rng.random() < 0.3, "srk_src": _pick(rng, [("pub", "pem"), ("pub", "pem"), ("pub", "der"), ("priv", "pem"), ("priv", "der"),
                                                               ("cert", "pem"), ("cert", "der"), ("nonca", "pem"), ("nonca", "der")]),
            "sign_via": _pick(rng, ["key", "key", "provider"]), "key_fmt": _pick(rng, ["pem", "der"]),
            "mask_fmt": _pick(rng, ["num", "hex"]), "cert": None, "blob": None, "images": [],
        }
        if kind:
            pool = pki.names(kind)
            order = list(pool)
            rng.shuffle(order)
            c["srk_names"] = order[:4]
            if cver == 2 and force.get("cert", rng.random() < 0.3):
                others = order[4:] or order[:4]
                perms = sorted({p for p in info["cert_perms"] if rng.random() < 0.3} | ({"container"} if rng.random() < 0.65 else set()))
                c["cert"] = {
                    "key": _pick(rng, others), "perms": perms,
                    "uuid": (bytes([rng.randrange(1, 256)]) + core.rand_bytes(rng, 15)).hex() if rng.random() < 0.6 else None,
                    "perm_data": (bytes([rng.randrange(1, 256)]) + core.rand_bytes(rng, 11)).hex() if rng.random() < 0.4 else None,
                    "fuse_version": _pick(rng, [0, 1, 255, rng.randrange(256)]),
                    "via": "yaml" if fam in info["cert_families"] and rng.random() < 0.6 else "bin",
                }
            if cver == 2 and not c["cert"] and force.get("srk2", rng.random() < 0.3):
                # SRK table array with TWO tables (the second one is meant for a post-quantum key; any supported key type is
                # accepted) and a second container signature by the used record of the second table
                k2 = _pick(rng, KINDS[:3])
                pool2 = [n for n in pki.names(k2) if n not in c["srk_names"]]
                rng.shuffle(pool2)
                if len(pool2) >= 4:
                    c["srk2"] = {"kind": k2, "names": pool2[:4], "sign_via": _pick(rng, ["key", "provider"])}
            if cver == 1 and force.get("cert"):
                c["cert"] = {"key": order[0], "perms": ["container"], "uuid": None, "perm_data": None, "fuse_version": 0, "via": "bin"}
        if force.get("blob", rng.random() < 0.25):
            bits = int(_pick(rng, info["dek_sizes"]))
            c["blob"] = {"bits": bits, "key_id": _pick(rng, [0, 1, 0xFFFFFFFF, rng.getrandbits(32)]), "dek": core.rand_bytes(rng, bits // 8).hex(),
                         "keyblob": core.rand_bytes(rng, bits // 8 + 48).hex() if rng.random() < 0.7 else None,
                         "dek_via": _pick(rng, ["hex", "hex", "txt", "bin"])}
        nimg = force.get("nimg")
        if not nimg:
            r = rng.random()
            nimg = 1 if r < 0.4 else 2 if r < 0.65 else 3 if r < 0.8 else imax if r < 0.85 else rng.randint(1, imax)
        nimg = max(1, min(nimg, imax, budget)) if not force.get("nimg") else nimg
        if not last and not force.get("nimg") and rng.random() > 0.05:
            # a non-last container must fit its fixed slot (format arithmetic); 5 % keep the overflow to exercise the refusal
            while nimg > 1 and R.header_length(cver, nimg, kind, kind if c["cert"] else None, c["blob"]["bits"] if c["blob"] else None, (c.get("srk2") or {}).get("kind")) > R.CONTAINER_SLOT[cver]:
                nimg -= 1
        budget = max(1, budget - nimg)
        for _ in range(nimg):
            c["images"].append(_gen_image_spec(rng, dev, cver, c["blob"], small, hashes))
        if c["blob"] and force.get("blob") and not any(i["enc"] for i in c["images"]):
            c["images"][0]["enc"] = True
        spec["containers"].append(c)
    # plan explicit offsets (never for serial_downloader, where the configuration key is ignored)
    if mem != "serial_downloader" and force.get("explicit", rng.random() < 0.4):
        cursor = START_PLAN[cver][1 if mem.startswith("nand") else 0]
        for c in spec["containers"]:
            for img in c["images"]:
                a = _img_alignment(dev, mem, img)
                if rng.random() < 0.7:
                    img["explicit"] = True
                    img["offset"] = _align(cursor, max(a, 8)) + rng.randrange(3) * max(a, 8)
                    cursor = img["offset"]
                else:
                    cursor = _align(cursor, 4)
                cursor = _align(cursor + _model_size(dev, img) + img["gap"], a)
        # hostile plan: one image is placed so that it covers the LAST k bytes of the image before it (k = 1 is the
        # boundary of every interval test); such a layout has to be refused, it is never a valid image
        flat = [img for c in spec["containers"] for img in c["images"]]
        if force.get("overlap", rng.random() < 0.08) and len(flat) > 1:
            j = rng.randrange(1, len(flat))
            prev, cur = flat[j - 1], flat[j]
            if prev["explicit"]:
                k = _pick(rng, [1, 1, 2, 8, 16])
                size = _model_size(dev, prev)
                if size > k:
                    cur["explicit"] = True
                    cur["offset"] = prev["offset"] + size - k
                    spec["hostile_overlap"] = {"image": j, "bytes": k}
    return spec


def _num(v: int, fmt: str):
    if fmt == "hex":
        return hex(v)
    if fmt == "hex_":
        h = f"{v:X}"
        groups = []
        while h:
            groups.insert(0, h[-4:])
            h = h[:-4]
        return "0x" + "_".join(groups)
    return v


def materialise(spec, rng, wdir):
    """Write the input files and return (config dict, inputs) where inputs[ci][ii] = image bytes."""
    import yaml

    os.makedirs(wdir, exist_ok=True)
    inputs = []
    conts = []
    for ci, c in enumerate(spec["containers"]):
        imgs_cfg, imgs_in = [], []
        for ii, img in enumerate(c["images"]):
            data = core.rand_bytes(rng, img["size"])
            if data and data[-1] == 0:
                data = data[:-1] + b"\x5a"  # keep the end of the input distinguishable from zero padding
            p = os.path.join(wdir, f"c{ci}_i{ii}.bin")
            with open(p, "wb") as f:
                f.write(data)
            imgs_in.append(data)
            d = {"image_path": os.path.basename(p) if rng.random() < 0.5 else p,
                 "image_offset": _num(img["offset"], img["fmt"]) if img["explicit"] else 0,
                 "load_address": _num(img["load"], img["fmt"]), "entry_point": _num(img["entry"], img["fmt"]),
                 "image_type": img["type"], "core_id": img["core"], "is_encrypted": img["enc"], "hash_type": img["hash"]}
            if img["boot_flags"] or rng.random() < 0.3:
                d["boot_flags"] = _num(img["boot_flags"], img["fmt"])
            if img["cpu"] or img["mu"] or img["part"] or rng.random() < 0.3:
                d.update({"meta_data_start_cpu_id": img["cpu"], "meta_data_mu_cpu_id": img["mu"], "meta_data_start_partition_id": img["part"]})
            if img["gap"]:
                d["gap_after_image"] = img["gap"]
            if img["size_align"]:
                d["image_size_alignment"] = img["size_align"]
            imgs_cfg.append(d)
        inputs.append(imgs_in)
        cc = {"srk_set": "oem" if c["kind"] else "none", "used_srk_id": c["used"],
              "srk_revoke_mask": hex(c["mask"]) if c["mask_fmt"] == "hex" else c["mask"],
              "fuse_version": c["fuse"], "sw_version": c["sw"], "images": imgs_cfg}
        if c["gdet"]:
            cc["gdet_runtime_behavior"] = c["gdet"]
        if c["check_all"]:
            cc["check_all_signatures"] = c["check_all"]
        if c["kind"]:
            what, fmt = c["srk_src"]
            cc["srk_table"] = {"flag_ca": c["flag_ca"], "srk_array": [pki.path(n, what, fmt) for n in c["srk_names"]]}
            signer = c["srk_names"][c["used"]]
            if c["cert"]:
                cert = c["cert"]
                if "container" in cert["perms"]:
                    signer = cert["key"]
                ccfg = {"family": spec["family"], "revision": spec["revision"], "permissions": list(cert["perms"]),
                        # SPSDK demands the same SRK flags (CA bit) on the certified key as on the SRK records
                        "public_key_0": pki.path(cert["key"], "cert" if _expected_ca(c) else "pub", "pem"),
                        "fuse_version": cert["fuse_version"],
                        "signing_key_0": pki.path(c["srk_names"][c["used"]], "priv", "pem")}
                if cert["uuid"]:
                    ccfg["uuid"] = "0x" + cert["uuid"]
                if cert["perm_data"]:
                    ccfg["permission_data"] = "0x" + cert["perm_data"]
                if cert["via"] == "yaml":
                    cp = os.path.join(wdir, f"cert{ci}.yaml")
                    with open(cp, "w", encoding="utf-8") as f:
                        yaml.safe_dump(ccfg, f)
                else:
                    from spsdk.image.ahab.ahab_certificate import AhabCertificate

                    co = AhabCertificate.load_from_config(ccfg, search_paths=[wdir])
                    co.update_fields()
                    cp = os.path.join(wdir, f"cert{ci}.bin")
                    with open(cp, "wb") as f:
                        f.write(co.export())
                cc["certificate"] = cp
            if c.get("srk2"):
                s2 = c["srk2"]
                cc["srk_table"]["srk_table_#2"] = {"flag_ca": c["flag_ca"], "srk_array": [pki.path(n, what, fmt) for n in s2["names"]]}
                kp2 = pki.path(s2["names"][c["used"]], "priv", c["key_fmt"])
                if s2["sign_via"] == "provider":
                    cc["signature_provider_#2"] = f"type=file;file_path={kp2}"
                else:
                    cc["signing_key_#2"] = kp2
            kp = pki.path(signer, "priv", c["key_fmt"])
            if c["sign_via"] == "provider":
                ptype = "file"
                if pki.kind_of(signer).startswith("p") and rng.random() < 0.4:
                    # a plug-in style provider (HSM back end) that returns DER encoded ECDSA signatures
                    from vf.props.mbi_gen import der_signature_provider

                    ptype = der_signature_provider()
                    c["der_provider"] = True
                cc["signature_provider"] = f"type={ptype};file_path={kp}"
            else:
                cc["signing_key"] = kp
            c["signer"] = signer
        if c["blob"]:
            b = c["blob"]
            bc = {"dek_key_size": b["bits"], "key_identifier": b["key_id"]}
            if b["dek_via"] == "hex":
                bc["dek_key"] = b["dek"]
            else:
                kp = os.path.join(wdir, f"dek{ci}." + b["dek_via"])
                with open(kp, "wb") as f:
                    f.write(b["dek"].encode() if b["dek_via"] == "txt" else bytes.fromhex(b["dek"]))
                bc["dek_key"] = kp
            if b["keyblob"] is not None:
                bc["dek_keyblob"] = _keyblob(b).hex()
            cc["blob"] = bc
        conts.append({"container": cc})
    cfg = {"family": spec["family"], "revision": spec["revision"], "output": os.path.join(wdir, "ahab.bin"), "containers": conts}
    if spec["mem_key"] == "image_type":
        cfg["image_type"] = {"serial_downloader": "serial_downloader", "nand_2k": "nand", "nor": "xip"}[spec["mem"]]
    else:
        cfg["target_memory"] = spec["mem"]
    if spec["pass_version_key"]:
        cfg["container_version"] = spec["cver"]
    return cfg, inputs


def _keyblob(b) -> bytes:
    """A DEK blob whose own header is consistent with the key size (Appendix A): version 0, length, tag 0x81, flags, size, algorithm AES-CBC, mode."""
    n = b["bits"] // 8
    return struct.pack("<BHBBBBB", 0, 8 + n + 48, 0x81, 0x01, n, 0x03, 0) + bytes.fromhex(b["keyblob"])


# ------------------------------------------------------------------------------------------
# observation helpers
PERM_BITS = {"container": 0x01, "debug": 0x02, "secure_fuse": 0x08, "return_life_cycle": 0x10, "patch_fuses": 0x40}
HASH_NUM = {"sha256": 0, "sha384": 1, "sha512": 2, "sm3": 3, "sha3_256": 4, "sha3_384": 5, "sha3_512": 6,
            "shake_128_output_256": 8, "shake_256_output_512": 9}


def _errors(v, path=""):
    from spsdk.utils.verifier import VerifierRecord, VerifierResult

    out = []
    for r in v.records:
        if isinstance(r, VerifierRecord):
            if r.result == VerifierResult.ERROR:
                out.append((path + "/" + v.name, r.name, str(r.value)[:100]))
        else:
            out.extend(_errors(r, path + "/" + v.name))
    return out


def _kind_cls(spec):
    return [c["kind"] or "none" for c in spec["containers"]]


def _case_sig(spec, outcome):
    n = sum(len(c["images"]) for c in spec["containers"])
    return [f"v{spec['cver']}", spec["mem"], "+".join(_kind_cls(spec)), "cert" if any(c["cert"] for c in spec["containers"]) else "-",
            "blob" if any(c["blob"] for c in spec["containers"]) else "-", len(spec["containers"]),
            "1" if n == 1 else "2-3" if n <= 3 else "4+", outcome]


def _model_overlap(spec, info):
    """Does the format itself make this layout collide?  Computed from the container format only."""
    dev = info["dev"][f"{spec['family']}/{spec['revision']}"]
    cver = spec["cver"]
    slot = R.CONTAINER_SLOT[cver]
    cs = spec["containers"]
    hl = [R.header_length(cver, len(c["images"]), c["kind"], c["kind"] if c["cert"] else None, c["blob"]["bits"] if c["blob"] else None, (c.get("srk2") or {}).get("kind")) for c in cs]
    for i in range(len(cs) - 1):
        if hl[i] > slot:
            return f"header of container {i} is {hl[i]:#x} bytes, its slot {slot:#x}"
    iv = [(i * slot, i * slot + hl[i], f"container{i}") for i in range(len(cs))]
    first = None
    for ci, c in enumerate(cs):
        for ii, img in enumerate(c["images"]):
            if img["explicit"]:
                iv.append((img["offset"], img["offset"] + _model_size(dev, img), f"container{ci}/image{ii}"))
            if first is None:
                first = img["offset"] if img["explicit"] else START_PLAN[cver][1 if spec["mem"].startswith("nand") else 0]
    ov = R.overlaps(iv)
    if ov:
        return f"{ov[0][0]} and {ov[0][1]} intersect"
    if first is not None and (len(cs) - 1) * slot + hl[-1] > first:
        return f"last container header ends at {(len(cs) - 1) * slot + hl[-1]:#x}, first image at {first:#x}"
    return None


def _classify_errors(spec, errs, info):
    """Mechanism key for ERROR records on an image SPSDK has just built from a valid configuration (None = justified refusal)."""
    import re

    keys = []
    for path, name, val in errs:
        m = re.search(r"/Container (\d+)", path)
        # the verifier names a container by offset // 0x400, i.e. 0, 16, 32 for the version-2 slots
        ci = int(m.group(1)) * 0x400 // R.CONTAINER_SLOT[spec["cver"]] if m else None
        c = spec["containers"][ci] if ci is not None and ci < len(spec["containers"]) else {}
        kind = c.get("kind") or ""
        if name == "Image overlapping" and _model_overlap(spec, info):
            continue
        if spec["cver"] == 2 and kind.startswith("rsa") and name.startswith("SRK Data Crypto parameter 2"):
            keys.append(K_V2_RSA)
        elif kind.startswith("rsa") and c.get("sign_via") == "provider" and name == "Signature" and "Container signing" in path:
            keys.append(K_RSA_PROVIDER)
        elif spec["cver"] == 2 and kind.startswith("rsa") and c.get("cert") and (("verification" in name and "Signature" in name) or val == "Invalid Certificate"):
            keys.append(K_V2_RSA_CERT)
        else:
            keys.append("valid-image-reported-erroneous:" + name.split(":")[0].strip().lower().replace(" ", "-")[:40])
    return keys[0] if keys else None


def _expected_ca(c) -> bool:
    return bool(c["flag_ca"]) or c["srk_src"][0] == "cert"


def _key_bytes(name):
    return pki.rsa_pub_bytes(name) if pki.kind_of(name).startswith("rsa") else pki.ecc_pub_bytes(name)


def _same_key(key: dict, name: str) -> bool:
    a, b = _key_bytes(name)
    return int.from_bytes(key["p1"], "big") == int.from_bytes(a, "big") and int.from_bytes(key["p2"], "big") == int.from_bytes(b, "big")


def _compare_walker(ctx, spec, info, rep, inputs, bad):
    """The walker's reading of the binary against what was asked for.  bad(item, detail) reports a mismatch."""
    from spsdk.image.ahab.ahab_container import AHABContainer

    dev = info["dev"][f"{spec['family']}/{spec['revision']}"]
    for ci, (c, w) in enumerate(zip(spec["containers"], rep["containers"])):
        where = f"container{ci}"
        exp = {"container_version": spec["cver"], "srk_set": "oem" if c["kind"] else "none", "used_srk_id": c["used"], "revoke_mask": c["mask"],
               "sw_version": c["sw"], "fuse_version": c["fuse"], "n_images": len(c["images"]),
               "gdet": AHABContainer.FlagsGdetBehavior.from_label(c["gdet"] or "disabled").tag,
               "check_all_signatures": 1 if c["check_all"] == "check_all_signatures" else 0,
               "key_identifier": c["blob"]["key_id"] if c["blob"] else w["key_identifier"]}  # reserved without a blob
        for k, v in exp.items():
            if w[k] != v:
                bad(k, {"where": where, "walker": w[k], "asked": v})
        if (w["blob"] is not None) != bool(c["blob"]):
            bad("blob-presence", {"where": where})
        elif c["blob"]:
            b = c["blob"]
            want = bytes.fromhex(b["keyblob"]) if b["keyblob"] is not None else bytes(b["bits"] // 8 + 48)
            if w["blob"]["key_bits"] != b["bits"] or w["blob"]["wrapped"] != want:
                bad("blob-content", {"where": where, "bits": w["blob"]["key_bits"]})
        if c["kind"]:
            t = w["srk"]["tables"][0]
            for j, (rec, name) in enumerate(zip(t["records"], c["srk_names"])):
                if rec["kind"] != c["kind"] or rec["ca"] != _expected_ca(c):
                    bad("srk-record-type", {"where": where, "record": j, "kind": rec["kind"], "ca": rec["ca"], "hash": rec["hash"]})
                a, b_ = _key_bytes(name)
                if spec["cver"] == 1:
                    if not _same_key(rec, name):
                        bad("srk-record-key", {"where": where, "record": j, "name": name})
                else:
                    l1, l2 = rec["len1"], rec["len2"]
                    keyb = int.from_bytes(a, "big").to_bytes(l1, "big") + int.from_bytes(b_, "big").to_bytes(l2, "big")
                    sd = struct.pack("<BHBBBBB", 0, 8 + len(keyb), R.TAG_SRK_DATA, j, 0, 0, 0) + keyb
                    _n, dg = R.record_hash(rec["hash"], sd)
                    if rec["data_hash"] != dg + bytes(64 - len(dg)):
                        bad("srk-record-data-hash-of-pool-key", {"where": where, "record": j, "name": name})
            if spec["cver"] == 2 and not _same_key(w["srk"]["keys"][0], c["srk_names"][c["used"]]):
                bad("srk-data-key", {"where": where})
            if len(w["srk"]["tables"]) != (2 if c.get("srk2") else 1) or len(w["signatures"]) != len(w["srk"]["tables"]):
                bad("srk-table-count", {"where": where, "tables": len(w["srk"]["tables"]), "signatures": len(w["signatures"]), "asked": 2 if c.get("srk2") else 1})
            elif c.get("srk2"):
                ctx.count("second_srk_tables")
                t2 = w["srk"]["tables"][1]
                for j, (rec, name) in enumerate(zip(t2["records"], c["srk2"]["names"])):
                    a, b_ = _key_bytes(name)
                    keyb = int.from_bytes(a, "big").to_bytes(rec["len1"], "big") + int.from_bytes(b_, "big").to_bytes(rec["len2"], "big")
                    sd = struct.pack("<BHBBBBB", 0, 8 + len(keyb), R.TAG_SRK_DATA, j, 0, 0, 0) + keyb
                    _n, dg = R.record_hash(rec["hash"], sd)
                    if rec["kind"] != c["srk2"]["kind"] or rec["data_hash"] != dg + bytes(64 - len(dg)):
                        bad("srk-record-of-second-table", {"where": where, "record": j, "name": name, "kind": rec["kind"]})
                if not _same_key(w["srk"]["keys"][1], c["srk2"]["names"][c["used"]]):
                    bad("srk-data-key-of-second-table", {"where": where})
            if not w["signature_ok"]:
                bad("signature-not-judged", {"where": where, "unsupported": w.get("unsupported")})
            else:
                ctx.count("signatures_verified")
            want_by = "certificate" if c["cert"] and "container" in c["cert"]["perms"] else "srk"
            if w["signed_by"] != want_by:
                bad("signed-by", {"where": where, "walker": w["signed_by"], "asked": want_by})
            if (w["certificate"] is not None) != bool(c["cert"]):
                bad("certificate-presence", {"where": where})
            elif c["cert"]:
                ce, wc = c["cert"], w["certificate"]
                perm = 0
                for p in ce["perms"]:
                    perm |= PERM_BITS[p]
                if (wc["permissions"] != perm or wc["fuse_version"] != ce["fuse_version"]
                        or wc["uuid"] != (bytes.fromhex(ce["uuid"]) if ce["uuid"] else bytes(16))
                        or wc["permission_data"] != (bytes.fromhex(ce["perm_data"]) if ce["perm_data"] else bytes(12))
                        or not _same_key(wc["keys"][0], ce["key"])):
                    bad("certificate-content", {"where": where, "permissions": wc["permissions"], "asked": perm, "uuid": wc["uuid"].hex(),
                                                "fuse_version": wc["fuse_version"]})
                ctx.count("certificates_checked")
        elif w["srk"] is not None or w["signature"] is not None:
            bad("unsigned-container-with-signature-material", {"where": where})
        for ii, (img, e, inp) in enumerate(zip(c["images"], w["images"], inputs[ci])):
            iw = f"{where}/image{ii}"
            exp = {"load_address": img["load"], "entry_point": img["entry"], "type": dev["types"][img["group"]][img["type"]],
                   "core": dev["cores"][img["core"]], "hash_alg": HASH_NUM[img["hash"]], "encrypted": img["enc"], "boot_flags": img["boot_flags"],
                   "meta_start_cpu": img["cpu"], "meta_mu_cpu": img["mu"], "meta_partition": img["part"]}
            for k, v in exp.items():
                if e[k] != v:
                    bad("image-entry-" + k, {"where": iw, "walker": e[k], "asked": v})
            if img["explicit"] and e["abs_offset"] != img["offset"]:
                bad("image-explicit-offset", {"where": iw, "walker": e["abs_offset"], "asked": img["offset"]})
            if e.get("hash_name") != "unsupported" and not e.get("hash_present") and not dev["empty_hash"]:
                bad("image-hash-empty", {"where": iw})
            body = e["plain"] if img["enc"] else e["stored"]
            if body is None:
                bad("image-not-decrypted", {"where": iw})
                continue
            if e["size"] < len(inp) or body[:len(inp)] != inp or any(body[len(inp):]):
                bad("image-bytes-enc" if img["enc"] else "image-bytes", {"where": iw, "size": e["size"], "input": len(inp)})
            if img["enc"]:
                ctx.count("encrypted_images_decrypted")
                if e["stored"] == body:
                    bad("encrypted-image-stored-in-plain", {"where": iw})
            ctx.count("image_hashes_checked")


# ------------------------------------------------------------------------------------------
def _deks(spec):
    return {ci: bytes.fromhex(c["blob"]["dek"]) for ci, c in enumerate(spec["containers"]) if c["blob"]}


def _offsets(cver):
    return [R.CONTAINER_SLOT[cver] * i for i in range(4)]


def _sigblk_equal(a, b):
    """SPSDK's own equality on the signature blocks, with the documented normalisation of omitted certificate fields."""
    if a == b:
        return None
    for f in ("length", "_srk_assets_offset", "_certificate_offset", "_blob_offset", "signature_offset"):
        if getattr(a, f) != getattr(b, f):
            return f
    for f in ("srk_assets", "signature", "blob"):
        if getattr(a, f) != getattr(b, f):
            return f
    if getattr(a, "signature_2", None) != getattr(b, "signature_2", None):
        return "signature_2"
    ca, cb = a.certificate, b.certificate
    if (ca is None) != (cb is None):
        return "certificate-presence"
    if ca is not None and ca != cb:
        def norm(c):
            return (c.length, c._permissions, (c.permission_data or b"").ljust(12, b"\0"), c.signature_offset, (c._uuid or b"").ljust(16, b"\0"),
                    c.fuse_version)
        if norm(ca) != norm(cb):
            return "certificate-fields"
        if ca.public_key_0 != cb.public_key_0 or ca.signature_0 != cb.signature_0 or ca.public_key_1 != cb.public_key_1 or ca.signature_1 != cb.signature_1:
            return "certificate-keys-or-signatures"
    return None


def build_and_judge(ctx, spec, info, wdir, tag="build"):
    """Materialise, build through the API, judge every clause.  Returns dict(data, rep, cfg, inputs) or None."""
    from spsdk.exceptions import SPSDKError
    from spsdk.image.ahab.ahab_image import AHABImage

    rng = ctx.rng
    fam, rev, mem, cver = spec["family"], spec["revision"], spec["mem"], spec["cver"]
    sig_cls = lambda outcome: _case_sig(spec, outcome)  # noqa: E731
    v1cert = cver == 1 and any(c["cert"] for c in spec["containers"])
    wants_unsupported_hash = any(i["hash"] not in ("sha256", "sha384", "sha512", "sm3") for c in spec["containers"] for i in c["images"])
    check_all = cver == 2 and any(c["check_all"] == "check_all_signatures" for c in spec["containers"])
    try:
        cfg, inputs = materialise(spec, rng, wdir)
        ahab = AHABImage.load_from_config(cfg, search_paths=[wdir])
        ahab.update_fields()
        pre = ahab.verify()
    except SPSDKError as e:
        msg = str(e)
        if wants_unsupported_hash and "EnumHashAlgorithm" in msg:
            ctx.refused(sig_cls("refused"), "image hash offered by the schema but not implemented: " + msg[:80])
            ctx.count("refused_unimplemented_hash")
            return None
        if check_all and "FlagsGdetBehavior" in msg:
            ctx.violation(K_CHECK_ALL, {"spec": _brief(spec), "error": msg[:200]})
            return None
        if v1cert and "certificate" in msg.lower():
            ctx.refused(sig_cls("refused"), "certificate in a version-1 container refused: " + msg[:80])
            ctx.count("refused_v1_certificate")
            return None
        ctx.violation("valid-configuration-refused", {"spec": _brief(spec), "error": msg[:400]})
        return None
    except AttributeError as e:
        if v1cert and "chip_config" in str(e):
            ctx.violation(K_V1_CERT, {"spec": _brief(spec), "exception": core.exc_brief(e)})
            return None
        raise
    errs = _errors(pre)
    if errs:
        key = _classify_errors(spec, errs, info)
        if key is None:
            ctx.refused(sig_cls("refused"), "Image overlapping - confirmed by the format model: " + str(_model_overlap(spec, info)))
            ctx.count("refused_overlap_justified")
        else:
            ctx.violation(key, {"spec": _brief(spec), "errors": errs[:4], "when": "verify() before export"})
        return None
    ctx.count("verify_clean_pre")
    if v1cert:
        # a certificate of the version-2 format inside a version-1 container: only reachable when the AttributeError is repaired by accepting it
        ctx.note("v1_certificate_accepted", _brief(spec))
    try:
        data = bytes(ahab.export())
    except SPSDKError as e:
        ctx.violation("export-refuses-image-its-verifier-accepts", {"spec": _brief(spec), "error": str(e)[:300]})
        return None
    if rng.random() < 0.3:
        # the same image object asked a second time (update_fields + export, what a caller does after touching a field):
        # nothing may be consumed or applied twice (encryption, offsets, lengths, hashes); the SECOND file is judged
        try:
            ahab.update_fields()
            data2 = bytes(ahab.export())
        except SPSDKError as e:
            ctx.violation("second-update-and-export-of-the-same-object-refused", {"spec": _brief(spec), "error": str(e)[:300]})
            return None
        ctx.count("second_exports_judged")
        if len(data2) != len(data):
            ctx.violation("second-export-of-the-same-object-has-another-length", {"spec": _brief(spec), "first": len(data), "second": len(data2)})
            return None
        data = data2
    ctx.count("built")
    nviol = [0]

    def bad(item, detail, prefix="walker-item-mismatch:"):
        nviol[0] += 1
        key = prefix + item
        if item in ("check_all_signatures", "gdet") and check_all:
            key = K_CHECK_ALL
        ctx.violation(key, {"spec": _brief(spec), "detail": detail})

    # SPSDK's accessors on the object it built
    for ci, (c, cont) in enumerate(zip(spec["containers"], ahab.ahab_containers)):
        if cver == 2 and (cont.flag_check_all_signatures.label != (c["check_all"] or "default")
                          or cont.flag_gdet_runtime_behavior.label != (c["gdet"] or "disabled")):
            bad("check_all_signatures", {"container": ci, "flags": hex(cont.flags), "check_all_read_back": cont.flag_check_all_signatures.label,
                                         "gdet_read_back": cont.flag_gdet_runtime_behavior.label, "asked": [c["check_all"], c["gdet"]]}, prefix="config-not-kept:")
    # ---- independent walker
    deks = _deks(spec)
    try:
        rep = R.walk_image(data, _offsets(cver), count=len(spec["containers"]), deks=deks)
    except R.Reject as e:
        ctx.violation(_walker_reject_key(spec, info, e), {"spec": _brief(spec), "walker": e.reason, "container": getattr(e, "container", None),
                                                          "detail": core.jsonable(e.detail)})
        return None
    ctx.count("walker_accepted")
    ctx.count("overlap_checked", len(rep["intervals"]))
    for c, w in zip(spec["containers"], rep["containers"]):
        # the format arithmetic that justifies "Image overlapping" refusals must reproduce the header length found in the binary
        hl = R.header_length(cver, len(c["images"]), c["kind"], c["kind"] if c["cert"] else None, c["blob"]["bits"] if c["blob"] else None, (c.get("srk2") or {}).get("kind"))
        if hl != w["length"]:
            raise core.Inconclusive(f"header length model {hl:#x} != length in the binary {w['length']:#x} ({_brief(spec)})")
    _compare_walker(ctx, spec, info, rep, inputs, bad)
    for ci, (cont, w) in enumerate(zip(ahab.ahab_containers, rep["containers"])):
        if ahab.ahab_containers[ci].get_container_offset(ci) != w["off"]:
            bad("container-offset", {"container": ci, "spsdk": cont.get_container_offset(ci), "fixed": w["off"]})
        for t, h in enumerate(w["srk_hashes"]):
            ctx.count("srk_hash_checked")
            if cont.get_srk_hash(t) != h:
                bad("srk-hash", {"container": ci, "table": t, "spsdk": cont.get_srk_hash(t).hex(), "hash_of_exported_table": h.hex()}, prefix="")
    # ---- parse laws
    parsed = AHABImage(fam, rev, mem)
    try:
        parsed.parse(data)
        post = parsed.verify()
    except SPSDKError as e:
        ctx.violation("parse-rejects-own-export", {"spec": _brief(spec), "error": str(e)[:300]})
        return None
    perrs = _errors(post)
    if perrs:
        ctx.violation(_classify_errors(spec, perrs, info) or "valid-image-reported-erroneous:image-overlapping",
                      {"spec": _brief(spec), "errors": perrs[:4], "when": "verify() after parse"})
        nviol[0] += 1
    else:
        ctx.count("verify_clean_post")
    if len(parsed.ahab_containers) != len(ahab.ahab_containers) or parsed.ahab_containers != ahab.ahab_containers:
        bad("containers", {"parsed": len(parsed.ahab_containers), "built": len(ahab.ahab_containers)}, prefix="parse-not-equal:")
    else:
        d = None
        for pc, bc in zip(parsed.ahab_containers, ahab.ahab_containers):
            d = d or _sigblk_equal(bc.signature_block, pc.signature_block)
        if d:
            bad("signature-block." + d, {}, prefix="parse-not-equal:")
        else:
            ctx.count("parse_equal")
    try:
        again = bytes(parsed.export())
    except SPSDKError as e:
        again = None
        bad("raises", {"error": str(e)[:200]}, prefix="reexport-")
    if again is not None:
        if again != data:
            pos = next((i for i, (x, y) in enumerate(zip(again, data)) if x != y), min(len(again), len(data)))
            bad("differs", {"first_difference": pos, "lengths": [len(again), len(data)]}, prefix="reexport-")
        else:
            ctx.count("reexport_identical")
    for ci, (c, pc) in enumerate(zip(spec["containers"], parsed.ahab_containers)):
        if (pc.fuse_version, pc.sw_version, pc.flag_used_srk_id, pc.flag_srk_revoke_keys, pc.flag_srk_set.label) != (
                c["fuse"], c["sw"], c["used"], c["mask"], "oem" if c["kind"] else "none"):
            bad("container-fields", {"container": ci}, prefix="parse-not-kept:")
        if c["blob"] and pc.signature_block.blob is not None:
            pc.signature_block.blob.dek = deks[ci]
        for ii, (img, e, inp) in enumerate(zip(c["images"], pc.image_array, inputs[ci])):
            if (e.load_address, e.entry_point, e.flags_boot_flags, e.flags_core_id_name, e.flags_image_type_name, e.flags_is_encrypted,
                    e.metadata_start_cpu_id, e.metadata_mu_cpu_id, e.metadata_start_partition_id) != (
                    img["load"], img["entry"], img["boot_flags"], img["core"], img["type"], img["enc"], img["cpu"], img["mu"], img["part"]):
                bad("image-fields", {"container": ci, "image": ii}, prefix="parse-not-kept:")
            if img["explicit"] and e.image_offset != img["offset"]:
                bad("image-offset", {"container": ci, "image": ii, "parsed": e.image_offset, "asked": img["offset"]}, prefix="parse-not-kept:")
        if c["blob"] and any(i["enc"] for i in c["images"]):
            v2 = _errors(parsed.verify())
            if v2:
                bad("verify-with-dek", {"container": ci, "errors": v2[:3]}, prefix="valid-image-reported-erroneous:")
            pc.decrypt_data()
        for ii, (img, e, inp) in enumerate(zip(c["images"], pc.image_array, inputs[ci])):
            body = e.plain_image
            if body[:len(inp)] != inp or any(body[len(inp):]):
                bad("image-not-prefix-plus-zero-padding", {"container": ci, "image": ii, "encrypted": img["enc"], "parsed_len": len(body), "input": len(inp)},
                    prefix="parse-not-kept:")
    if not nviol[0]:
        ctx.ok(sig_cls("ok"), sample={"family": fam, "revision": rev, "image_bytes": len(data),
                                      "containers": [{"srk": c["kind"], "used": c["used"], "mask": c["mask"], "images": [i["size"] for i in c["images"]],
                                                      "cert": bool(c["cert"]), "blob": bool(c["blob"])} for c in spec["containers"]],
                                      "walker": "agrees", "verify": "clean before export and after parse", "reexport": "identical"})
    return {"data": data, "rep": rep, "cfg": cfg, "inputs": inputs, "clean": not nviol[0]}


def _walker_reject_key(spec, info, e):
    if e.reason == "encrypted-image-iv-is-not-sha256-of-plaintext" and getattr(e, "container", None) is not None:
        dev = info["dev"][f"{spec['family']}/{spec['revision']}"]
        img = spec["containers"][e.container]["images"][e.detail["image"]]
        if img["enc"] and img["size_align"] and _model_size(dev, img) > _align(img["size"], max(1, dev["csa"])):
            return K_ENC_PAD  # the entry size is padded after encryption: the zero tail is not ciphertext
    return "walker-rejects:" + e.reason


def _brief(spec):
    return {"family": spec["family"], "revision": spec["revision"], "cver": spec["cver"], "mem": spec["mem"],
            "containers": [{"kind": c["kind"], "used": c["used"], "mask": c["mask"], "fuse": c["fuse"], "sw": c["sw"], "gdet": c["gdet"],
                            "check_all": c["check_all"], "cert": c["cert"] and {"perms": c["cert"]["perms"], "via": c["cert"]["via"]},
                            "blob": c["blob"] and c["blob"]["bits"], "srk_src": c["srk_src"], "srk2": (c.get("srk2") or {}).get("kind"),
                            "images": [[i["size"], i["core"], i["type"], i["hash"], "enc" if i["enc"] else "plain",
                                        hex(i["offset"]) if i["explicit"] else "auto"] for i in c["images"]]} for c in spec["containers"]]}


# ------------------------------------------------------------------------------------------
def _spsdk_on_corrupted(fam, rev, mem, bad_bytes, n_expected):
    """('parse-error'|'verify-error'|'crash:<T>'|'dropped'|'clean', detail, parsed image or None)."""
    from spsdk.exceptions import SPSDKError
    from spsdk.image.ahab.ahab_image import AHABImage

    img = AHABImage(fam, rev, mem)
    try:
        img.parse(bad_bytes)
    except SPSDKError as e:
        return "parse-error", str(e)[:80], None
    except Exception as e:  # pylint: disable=broad-except
        if core.origin_of(e) != "repo":
            raise
        return "crash:" + type(e).__name__, core.exc_brief(e), None
    try:
        ver = img.verify()
        errs = ver.has_errors
    except SPSDKError as e:
        return "verify-error", str(e)[:80], img
    except Exception as e:  # pylint: disable=broad-except
        if core.origin_of(e) != "repo":
            raise
        return "crash:" + type(e).__name__, core.exc_brief(e), img
    if errs:
        return "verify-error", "", img
    if len(img.ahab_containers) < n_expected:
        return "dropped", "", img
    return "clean", "", img


def install_monitors(ctx):
    """Safety net only: SPSDK's verifier zero-extends an image to the size its (corrupted) entry names before hashing it - a flipped
    image count or size can ask for gigabytes.  The address space of a worker is capped so that such a request fails inside SPSDK
    (counted as 'reported by crash') instead of exhausting the machine."""
    import resource

    try:
        resource.setrlimit(resource.RLIMIT_AS, (3 << 30, 3 << 30))
    except (ValueError, OSError):
        pass


def _flip_pos(rng, region):
    """Random byte of a region.  The top byte of an image entry's offset / size is spared: SPSDK's verifier zero-extends the
    image to the (then multi-GiB) size before hashing it, which only exhausts the machine's memory."""
    s, e, name = region[0], region[1], region[2]
    if name in ("image-entry.size", "image-entry.offset"):
        e -= 1
    return rng.randrange(s, e)


def flip_sweep(ctx, spec, data, rep, nflips, dense=False):
    """Single-bit corruptions of authenticated bytes: SPSDK (parse + verify of the corrupted file) and the walker must both report."""
    from spsdk.exceptions import SPSDKError

    rng = ctx.rng
    fam, rev, mem, cver = spec["family"], spec["revision"], spec["mem"], spec["cver"]
    n = len(spec["containers"])
    deks = _deks(spec)
    regions = []
    for c in rep["containers"]:
        for s, e, name in R.authenticated_regions(c):
            regions.append((s, e, name, c["index"]))
    if not regions:
        return
    by_name: dict = {}
    for r in regions:
        by_name.setdefault(r[2], []).append(r)
    names = sorted(by_name)
    picks = []
    if dense:
        per = 3 if ctx.tier == "thorough" else 1
        for nm in names:
            for r in by_name[nm][:per]:
                picks.append((r, r[0], rng.randrange(8)))
                if r[1] - r[0] > 1:
                    picks.append((r, _flip_pos(rng, r), rng.randrange(8)))
    else:
        for _ in range(nflips):
            r = _pick(rng, by_name[_pick(rng, names)])
            picks.append((r, _flip_pos(rng, r), rng.randrange(8)))
    offs = {c["index"]: c["off"] for c in rep["containers"]}
    tally: dict = {}
    crashes = set()
    for (s, e, name, ci), pos, bit in picks:
        if name == "container-header.flags" and pos == offs[ci] + 4 and (data[pos] ^ (1 << bit)) & 3 == 0:
            continue  # the corrupted header would claim "not signed": only a life-cycle policy, no verifier, can object
        if name == "container-header.image-count" and not data[pos] & (1 << bit):
            # a larger count makes SPSDK read key material as image entries and zero-extend "images" of random 32-bit sizes
            # (observed: 3.4 GiB for one flip); only decreasing flips are driven
            bit = max(b for b in range(8) if data[pos] & (1 << b))
        bad_bytes = bytearray(data)
        bad_bytes[pos] ^= 1 << bit
        bad_bytes = bytes(bad_bytes)
        try:
            R.walk_container(bad_bytes, offs[ci], dek=deks.get(ci))  # only the container the byte belongs to
            raise core.Inconclusive(f"walker accepts a corrupted authenticated byte: {name} at {pos:#x} bit {bit}")
        except R.Reject:
            pass
        status, detail, parsed = _spsdk_on_corrupted(fam, rev, mem, bad_bytes, n)
        ctx.count("flips_judged")
        if status == "dropped" and not (ci >= 1 and name in ("container-header.version", "container-header.length", "container-header.tag")):
            status = "clean"
        if status.startswith("crash:"):
            crashes.add(f"{name}: {detail}"[:200])
        if status == "clean":
            key = "ahab-corruption-not-reported:" + name
            extra = {}
            try:
                again = bytes(parsed.export())
                if len(again) > pos and again[pos] != bad_bytes[pos]:
                    key = K_REEXPORT_CERT if name.startswith("certificate") else K_REEXPORT
                    extra = {"reexport_restores_original_byte": again[pos] == data[pos]}
            except SPSDKError as ex:
                extra = {"reexport": str(ex)[:100]}
            ctx.violation(key, dict({"spec": _brief(spec), "region": name, "container": ci, "position": pos, "bit": bit,
                                     "spsdk": "parse ok, verify() reports no error", "walker": "rejects"}, **extra))
            continue
        k = (name.split(".")[0], status.split(":")[0])
        tally[k] = tally.get(k, 0) + 1
    for (grp, st), cnt in sorted(tally.items()):
        ctx.ok(["flip", f"v{cver}", grp, st], n=cnt)
        ctx.count("flip_" + st.replace("-", "_"), cnt)
    if crashes:
        ctx.note("corrupted_image_reported_by_crash", sorted(crashes)[:6])


# ------------------------------------------------------------------------------------------
def _case_dir(ctx):
    d = os.path.join(ctx.workdir, f"case{ctx.case_index}")
    shutil.rmtree(d, ignore_errors=True)
    os.makedirs(d, exist_ok=True)
    return d


def _quiet():
    import logging

    logging.disable(logging.CRITICAL)


def run_case(case, ctx):  # noqa: C901
    _quiet()
    info = _db_info()
    wdir = _case_dir(ctx)
    try:
        kind = case["kind"]
        if kind == "build":
            spec = gen_spec(ctx.rng, info, case["family"], case["revision"], case["cver"], case["mem"], case["k"], ctx.tier)
            out = build_and_judge(ctx, spec, info, wdir)
            if out and out["clean"]:
                flip_sweep(ctx, spec, out["data"], out["rep"], nflips=10 if ctx.tier == "thorough" else 6)
        elif kind == "sweep":
            _run_sweep(case, ctx, info, wdir)
        elif kind == "cli":
            _run_cli(case, ctx, info, wdir)
        elif kind == "witness":
            _run_witness(case, ctx, info, wdir)
        else:
            raise core.Inconclusive(f"unknown case kind {kind}")
    finally:
        shutil.rmtree(wdir, ignore_errors=True)


def _combo_for(info, rng, want_cver=None):
    combos = [c for c in info["combos"] if want_cver is None or c[2] == want_cver]
    return combos[rng.randrange(len(combos))]


def _run_sweep(case, ctx, info, wdir):
    """Dense sweep: every authenticated region of one signed image (alternating container versions, key kinds, certificate, blob)."""
    j = case["j"]
    rng = ctx.rng
    cver = 2 if j % 2 else 1
    fam, rev, _ = _combo_for(info, rng, cver)
    kind = ["p256", "p384", "p521"][(j // 2) % 3] if (cver == 2 or j % 8 < 6) else ["rsa2048", "rsa4096"][(j // 8) % 2]
    spec = gen_spec(rng, info, fam, rev, cver, _pick(rng, info["mems"]), 1, "quick",
                    force={"small": True, "ncont": 2, "kind": kind, "nimg": 2, "cert": cver == 2 and j % 4 == 1, "blob": j % 3 == 0})
    if j % 5 == 4:
        spec["containers"][0]["kind"] = None  # one unsigned container as well
        spec["containers"][0]["cert"] = None
    out = build_and_judge(ctx, spec, info, wdir, tag="sweep")
    if out and out["clean"]:
        flip_sweep(ctx, spec, out["data"], out["rep"], 0, dense=True)


def _run_cli(case, ctx, info, wdir, spec=None):
    """nxpimage ahab export | verify | parse through click's CliRunner on a generated configuration."""
    import yaml
    from click.testing import CliRunner

    from spsdk.apps import nxpimage

    rng = ctx.rng
    if spec is None:
        fam, rev, cver = _combo_for(info, rng)
        mem = _pick(rng, info["mems"])
        spec = gen_spec(rng, info, fam, rev, cver, mem, case["j"], "quick", force={"small": True})
    fam, rev, cver, mem = spec["family"], spec["revision"], spec["cver"], spec["mem"]
    latest_types = info["dev"][f"{fam}/{rev}"]["ctypes"]
    cfg, inputs = materialise(spec, rng, wdir)
    cfgp = os.path.join(wdir, "cfg.yaml")
    with open(cfgp, "w", encoding="utf-8") as f:
        yaml.safe_dump(cfg, f)
    runner = CliRunner()
    ctx.count("cli_runs")
    r = runner.invoke(nxpimage.main, ["ahab", "export", "-c", cfgp])
    outp = cfg["output"]
    if (r.exit_code != 0 and os.path.exists(outp) and isinstance(r.exception, IndexError) and cver == 2
            and any(c["kind"] for c in spec["containers"])):
        # the image is written, then the fuse files are generated for SUPPORTED_SIGNATURES_CNT (2) tables although one exists
        ctx.violation(K_CLI_SRK_HASH, {"spec": _brief(spec), "exception": core.exc_brief(r.exception)})
    elif r.exit_code != 0 or not os.path.exists(outp):
        # same triage as the API path: build through the API to classify (refusal / known mechanism / violation)
        out = build_and_judge(ctx, spec, info, os.path.join(wdir, "api"), tag="cli-triage")
        if out is not None:
            ctx.violation("cli-export-fails-where-api-builds", {"spec": _brief(spec), "exit": r.exit_code, "exception": repr(r.exception)[:300]})
        return
    with open(outp, "rb") as f:
        data = f.read()
    deks = _deks(spec)
    bad_n = [0]

    def bad(item, detail, prefix="cli-walker-item-mismatch:"):
        bad_n[0] += 1
        ctx.violation(prefix + item, {"spec": _brief(spec), "detail": detail})

    try:
        rep = R.walk_image(data, _offsets(cver), count=len(spec["containers"]), deks=deks)
    except R.Reject as e:
        ctx.violation(_walker_reject_key(spec, info, e), {"spec": _brief(spec), "via": "cli export", "walker": e.reason, "detail": core.jsonable(e.detail)})
        return
    ctx.count("walker_accepted")
    check_all = cver == 2 and any(c["check_all"] == "check_all_signatures" for c in spec["containers"])
    _compare_walker(ctx, spec, info, rep, inputs,
                    lambda item, detail: bad(item, detail) if not (check_all and item in ("gdet", "check_all_signatures"))
                    else ctx.violation(K_CHECK_ALL, {"spec": _brief(spec), "detail": detail, "via": "cli"}))
    # verify / parse: the CLI takes no revision (latest is used); container type is recognised from the data
    rv = runner.invoke(nxpimage.main, ["ahab", "verify", "-f", fam, "-b", outp, "-p"])
    ctx.count("cli_runs")
    if rv.exit_code != 0:
        bad("verify", {"exit": rv.exit_code, "output": rv.output[-300:], "exception": repr(rv.exception)[:200]}, prefix="cli-valid-image-reported-erroneous:")
    pdir = os.path.join(wdir, "parsed")
    args = ["ahab", "parse", "-f", fam, "-b", outp, "-o", pdir]
    dek_ci = [ci for ci, c in enumerate(spec["containers"]) if c["blob"]]
    if len(dek_ci) == 1 or (dek_ci and len({spec["containers"][ci]["blob"]["dek"] for ci in dek_ci}) == 1):
        args += ["-k", spec["containers"][dek_ci[0]]["blob"]["dek"]]
        with_dek = True
    else:
        with_dek = False
    rp = runner.invoke(nxpimage.main, args)
    ctx.count("cli_runs")
    v2_hash_crash = (isinstance(rp.exception, IndexError) and cver == 2 and any(c["kind"] for c in spec["containers"]) and "Success" in rp.output)
    if v2_hash_crash:
        ctx.violation(K_CLI_SRK_HASH, {"spec": _brief(spec), "command": "ahab parse", "exception": core.exc_brief(rp.exception)})
        bad_n[0] += 1
    if (rp.exit_code != 0 and not v2_hash_crash) or "Success" not in rp.output:
        bad("parse", {"exit": rp.exit_code, "output": rp.output[-300:], "exception": repr(rp.exception)[:200]}, prefix="cli-")
    else:
        for ci, c in enumerate(spec["containers"]):
            for ii, (img, inp) in enumerate(zip(c["images"], inputs[ci])):
                if img["enc"] and not with_dek:
                    continue
                name = f"container{ci}_image{ii}_{img['type']}_{img['core']}.bin"
                p = os.path.join(pdir, name)
                if not os.path.exists(p):
                    cands = [x for x in os.listdir(pdir) if x.startswith(f"container{ci}_image{ii}_") and "encrypted" not in x]
                    p = os.path.join(pdir, cands[0]) if cands else None
                if p is None:
                    bad("parse-image-file-missing", {"container": ci, "image": ii, "files": sorted(os.listdir(pdir))[:12]}, prefix="cli-")
                    continue
                with open(p, "rb") as f:
                    body = f.read()
                if body[:len(inp)] != inp or any(body[len(inp):]):
                    bad("parse-image-not-prefix-plus-padding", {"container": ci, "image": ii, "encrypted": img["enc"]}, prefix="cli-")
    # a corrupted image must make `ahab verify` fail
    regs = [r for c in rep["containers"] for r in R.authenticated_regions(c)
            if not (c["index"] >= 1 and r[2] in ("container-header.version", "container-header.length", "container-header.tag"))]
    for _ in range(2 if regs else 0):
        s, e, name = _pick(rng, regs)
        pos, bit = _flip_pos(rng, (s, e, name)), rng.randrange(8)
        if name == "container-header.image-count" and not data[pos] & (1 << bit):
            bit = max(b for b in range(8) if data[pos] & (1 << b))  # see flip_sweep: only decreasing flips
        if name == "container-header.flags" and (pos - s) == 0 and (data[pos] ^ (1 << bit)) & 3 == 0:
            continue
        b2 = bytearray(data)
        b2[pos] ^= 1 << bit
        bp = os.path.join(wdir, "bad.bin")
        with open(bp, "wb") as f:
            f.write(b2)
        rb = runner.invoke(nxpimage.main, ["ahab", "verify", "-f", fam, "-b", bp, "-p"])
        ctx.count("cli_runs")
        ctx.count("flips_judged")
        if rb.exit_code == 0:
            st, _d, parsed = _spsdk_on_corrupted(fam, "latest", mem, bytes(b2), len(spec["containers"]))
            key = "cli-corruption-not-reported:" + name
            if st == "clean" and parsed is not None:
                try:
                    again = bytes(parsed.export())
                    if len(again) > pos and again[pos] != b2[pos]:
                        key = K_REEXPORT_CERT if name.startswith("certificate") else K_REEXPORT
                except Exception:  # pylint: disable=broad-except
                    pass
            ctx.violation(key, {"spec": _brief(spec), "via": "nxpimage ahab verify", "region": name, "position": pos, "bit": bit})
            bad_n[0] += 1
    if not bad_n[0]:
        ctx.ok(["cli"] + _case_sig(spec, "ok"), sample={"cli": "export+verify+parse", "family": fam, "latest_container_types": latest_types})


# ------------------------------------------------------------------------------------------
def _first_combo(info, cver, fam_prefer=None):
    for fam, rev, cv in info["combos"]:
        if cv == cver and (fam_prefer is None or fam == fam_prefer):
            return fam, rev
    for fam, rev, cv in info["combos"]:
        if cv == cver:
            return fam, rev
    raise core.Inconclusive(f"the database offers no container version {cver}")


def _simple_spec(ctx, info, cver, kind, fam_prefer=None, **force):
    fam, rev = _first_combo(info, cver, fam_prefer)
    f = {"small": True, "ncont": 1, "kind": kind, "nimg": 2, "cert": False, "blob": False, "explicit": False}
    f.update(force)
    spec = gen_spec(ctx.rng, info, fam, rev, cver, "standard", 0, "quick", force=f)
    for c in spec["containers"]:
        c["check_all"] = None
        for i in c["images"]:
            i["hash"] = "sha384"
    return spec


def _run_witness(case, ctx, info, wdir):  # noqa: C901
    from spsdk.exceptions import SPSDKError
    from spsdk.image.ahab.ahab_image import AHABImage

    what = case["what"]
    if what == "v2_rsa":
        # directed: RSA SRK table on a version-2 container family must build, verify and round-trip
        spec = _simple_spec(ctx, info, 2, "rsa2048")
        out = build_and_judge(ctx, spec, info, wdir)
        if out and out["clean"]:
            flip_sweep(ctx, spec, out["data"], out["rep"], 8)
        spec = _simple_spec(ctx, info, 2, "rsa4096", cert=True)
        spec["containers"][0]["cert"]["perms"] = ["container"]
        build_and_judge(ctx, spec, info, os.path.join(wdir, "c"))
        return
    if what == "v1_certificate":
        # directed: certificate configured for a version-1 container -> documented refusal, or a verified image; never AttributeError
        spec = _simple_spec(ctx, info, 1, "p256", fam_prefer="mimxrt1189", cert=True)
        try:
            out = build_and_judge(ctx, spec, info, wdir)
        except SPSDKError:
            out = None
        if out is None:
            ctx.ok(["witness", what, "not-built"], nontrivial=False)
        return
    if what == "check_all_signatures":
        for gd in (None, "enabled"):
            spec = _simple_spec(ctx, info, 2, "p256")
            spec["containers"][0]["check_all"] = "check_all_signatures"
            spec["containers"][0]["gdet"] = gd
            build_and_judge(ctx, spec, info, os.path.join(wdir, str(gd)))
        return
    if what in ("reserved_byte_flip", "certificate_reserved_flip"):
        cert = what.startswith("certificate")
        spec = _simple_spec(ctx, info, 2 if cert else 1, "p256", cert=cert)
        out = build_and_judge(ctx, spec, info, wdir)
        if not out:
            return
        c = out["rep"]["containers"][0]
        want = "certificate.reserved" if cert else "container-header.reserved"
        s, e, name = next(r for r in R.authenticated_regions(c) if r[2] == want)
        bad_bytes = bytearray(out["data"])
        bad_bytes[s] ^= 0x01
        bad_bytes = bytes(bad_bytes)
        try:
            R.walk_image(bad_bytes, _offsets(spec["cver"]), count=1)
            raise core.Inconclusive("walker accepts a flipped signed reserved byte")
        except R.Reject:
            pass
        st, detail, parsed = _spsdk_on_corrupted(spec["family"], spec["revision"], spec["mem"], bad_bytes, 1)
        ctx.count("flips_judged")
        if st == "clean":
            again = bytes(parsed.export())
            key = (K_REEXPORT_CERT if cert else K_REEXPORT) if again[s] != bad_bytes[s] else "ahab-corruption-not-reported:" + name
            ctx.violation(key, {"witness": what, "family": spec["family"], "position": s, "region": name, "file_byte": bad_bytes[s], "reexported_byte": again[s],
                                "spsdk": "verify() of the re-parsed image reports no error; its signature check runs over the re-exported object",
                                "walker": "signature does not verify over the bytes of the file"})
        else:
            ctx.ok(["witness", what, st])
        return
    if what == "revoked_signer":
        # the signer's own id in the revoke mask: not a valid image; must be *reported* (export refusal or verifier error after parse)
        for cver in sorted({c[2] for c in info["combos"]}):
            spec = _simple_spec(ctx, info, cver, "p256", used=2)
            spec["containers"][0]["mask"] = 0x4 | (ctx.rng.getrandbits(4) & 0xB)
            d = os.path.join(wdir, f"v{cver}")
            cfg, _inputs = materialise(spec, ctx.rng, d)
            try:
                a = AHABImage.load_from_config(cfg, search_paths=[d])
                a.update_fields()
                data = bytes(a.export())
            except SPSDKError as e:
                ctx.refused(["witness", what, f"v{cver}"], "revoked signer refused at export: " + str(e)[:60])
                continue
            try:
                R.walk_image(data, _offsets(cver), count=1)
                raise core.Inconclusive("walker accepts a container signed by a revoked SRK")
            except R.Reject as e:
                if e.reason != "used-srk-is-revoked":
                    raise core.Inconclusive(f"walker rejects the revoked-signer image for another reason: {e.reason}") from e
            st, _d, _p = _spsdk_on_corrupted(spec["family"], spec["revision"], spec["mem"], data, 1)
            if st == "clean":
                ctx.violation("ahab-revoked-signer-not-reported", {"spec": _brief(spec)})
            else:
                ctx.ok(["witness", what, f"v{cver}", st])
                ctx.count("revoked_signer_reported")
        return
    if what == "version_bounds":
        n = 0
        for fuse, sw, valid in [(0, 0, True), (255, 65535, True), (256, 0, False), (0, 65536, False)]:
            for kind in ("p256", None):
                spec = _simple_spec(ctx, info, 1, kind)
                spec["containers"][0]["fuse"], spec["containers"][0]["sw"] = fuse, sw
                d = os.path.join(wdir, f"{fuse}_{sw}_{kind}")
                if valid:
                    build_and_judge(ctx, spec, info, d)
                    continue
                cfg, _inputs = materialise(spec, ctx.rng, d)
                try:
                    a = AHABImage.load_from_config(cfg, search_paths=[d])
                    a.update_fields()
                    data = bytes(a.export())
                except SPSDKError as e:
                    ctx.refused(["witness", what, "out-of-range", "SPSDKError"], str(e)[:60])
                    continue
                except struct.error as e:
                    ctx.refused(["witness", what, "out-of-range", "struct.error"], str(e)[:60])
                    ctx.note("out_of_range_version_refused_with", "struct.error (not an SPSDKError)")
                    continue
                w = R.walk_image(data, _offsets(1), count=1)["containers"][0]
                ctx.violation("out-of-range-version-exported", {"asked": [fuse, sw], "exported": [w["fuse_version"], w["sw_version"]]})
                n += 1
        return
    if what == "overlap_refused":
        # two explicit offsets that collide: must be refused, never exported
        spec = _simple_spec(ctx, info, 1, "p256")
        i0, i1 = spec["containers"][0]["images"]
        i0.update({"explicit": True, "offset": 0x2000, "size": 3000, "size_align": None, "gap": 0})
        i1.update({"explicit": True, "offset": 0x2400, "size": 100, "size_align": None, "gap": 0})
        if not _model_overlap(spec, info):
            raise core.Inconclusive("model does not see the planned overlap")
        cfg, _inputs = materialise(spec, ctx.rng, wdir)
        try:
            a = AHABImage.load_from_config(cfg, search_paths=[wdir])
            a.update_fields()
            data = bytes(a.export())
        except SPSDKError as e:
            ctx.refused(["witness", what], "overlapping explicit offsets refused: " + str(e)[:40].replace("\n", " "))
            ctx.count("refused_overlap_justified")
            return
        try:
            R.walk_image(data, _offsets(1), count=1)
            raise core.Inconclusive("walker does not see the overlap")
        except R.Reject as e:
            ctx.violation("overlapping-images-exported", {"walker": e.reason, "detail": core.jsonable(e.detail)})
        return
    if what == "rsa_in_non_last_v1_container":
        spec = _simple_spec(ctx, info, 1, "rsa2048", ncont=2)
        build_and_judge(ctx, spec, info, wdir)  # expected: refused, justified by the format model (header 0x5F0+ > 0x400 slot)
        return
    if what == "cli_v2_single_table":
        _run_cli(case, ctx, info, wdir, spec=_simple_spec(ctx, info, 2, "p256"))
        return
    if what == "rsa_signature_provider":
        spec = _simple_spec(ctx, info, 1, "rsa2048")
        spec["containers"][0]["sign_via"] = "provider"
        out = build_and_judge(ctx, spec, info, wdir)
        if out and out["clean"]:
            flip_sweep(ctx, spec, out["data"], out["rep"], 6)
        return
    if what == "encrypted_with_size_alignment":
        spec = _simple_spec(ctx, info, 1, "p256", blob=True)
        img = spec["containers"][0]["images"][0]
        img.update({"enc": True, "size": 700, "size_align": 4096, "type": "executable", "core": "cortex-m33", "group": "application"})
        build_and_judge(ctx, spec, info, wdir)
        return
    if what == "max_layout":
        # max containers; the last one with max images, the others with as many as their fixed slot can hold (format arithmetic)
        for cver in sorted({c[2] for c in info["combos"]}):
            fam, rev = _first_combo(info, cver)
            dev = info["dev"][f"{fam}/{rev}"]
            fit = max(n for n in range(1, dev["imax"] + 1) if R.header_length(cver, n, "p256") <= R.CONTAINER_SLOT[cver])
            spec = gen_spec(ctx.rng, info, fam, rev, cver, "standard", 0, "quick",
                            force={"small": True, "ncont": dev["cmax"], "nimg": dev["imax"], "kind": "p256", "cert": False, "blob": False})
            for c in spec["containers"][:-1]:
                del c["images"][fit:]
            for c in spec["containers"]:
                c["check_all"] = None
                for i in c["images"]:
                    i["hash"] = "sha512"
            out = build_and_judge(ctx, spec, info, os.path.join(wdir, f"v{cver}"))
            if out and out["clean"]:
                ctx.count("max_layouts_built")
                flip_sweep(ctx, spec, out["data"], out["rep"], 12)
            # one image more in the first container cannot be represented when the slot is exhausted: must be refused, never exported
            if fit < dev["imax"] and len(spec["containers"]) > 1:
                spec["containers"][0]["images"].append(dict(spec["containers"][0]["images"][0], explicit=False, offset=0))
                build_and_judge(ctx, spec, info, os.path.join(wdir, f"v{cver}x"))
        return
    raise core.Inconclusive(f"unknown witness {what}")


def escape_mechanism(case, exc):
    if isinstance(exc, AttributeError) and "chip_config" in str(exc):
        return K_V1_CERT
    return None
