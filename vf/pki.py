"""Access to the committed key / certificate pool (fixtures/pki, made once by tools/make_fixtures.py).

Deterministic and replayable: checks refer to keys by *name* ("rsa2048_0", "p384_3", ...).  Imports
nothing from spsdk and nothing from cryptography; raw numbers come from index.json.

Kinds and pool sizes: rsa2048 x6, rsa3072 x4, rsa4096 x4, p256 x8, p384 x8, p521 x6 (e = 65537).  The last two keys of every
ECC kind are edge keys: X resp. Y has a leading zero byte (index.json does not mark them; compare bit lengths).
Per key <name>:   <name>.pem / .der        private key, PKCS#8, unencrypted
                  <name>.pub.pem / .pub.der SubjectPublicKeyInfo
                  <name>.crt.pem / .crt.der self-signed X.509 v3 **CA** certificate (BasicConstraints CA=TRUE)
                  <name>.nonca.crt.pem/.der self-signed certificate with CA=FALSE
Chains (RSA only, for certificate block v1):  chain(root, depth) with depth 2 (root -> leaf) or 3 (root -> mid -> leaf)
returns {"certs": [paths of DER certificates root first], "keys": [key names; the LAST one signs the image]}.
"""
from __future__ import annotations

import functools
import json
import os

DIR = os.path.join(os.path.dirname(os.path.dirname(os.path.abspath(__file__))), "fixtures", "pki")
KINDS = ("rsa2048", "rsa3072", "rsa4096", "p256", "p384", "p521")
COORD_SIZE = {"p256": 32, "p384": 48, "p521": 66}


@functools.lru_cache(None)
def index() -> dict:
    with open(os.path.join(DIR, "index.json"), encoding="utf-8") as f:
        return json.load(f)


def names(kind: str) -> list[str]:
    """All key names of a kind, in pool order."""
    return sorted((n for n, v in index()["keys"].items() if v["kind"] == kind), key=lambda s: int(s.rsplit("_", 1)[1]))


def kind_of(name: str) -> str:
    return index()["keys"][name]["kind"]


_ROT = {"dir": None, "rng": None, "fraction": 0.0, "n": 0, "handed_out": 0}
ROT_SLOTS = 48


def enable_rotation(workdir: str, seed: str, fraction: float) -> None:
    """From now on a fraction of the paths handed out are ROTATING slots: ROT_SLOTS (48) file names per form in a folder of this
    process, each holding another key every time it comes round - what a project looks like whose keys were replaced
    under the same names and which the same process builds again.  A case must not hold more than ROT_SLOTS ROTATING paths of
    one form at a time: the largest user is an AHAB configuration with four containers of two SRK tables each (32 paths of one
    form, about a third of them rotating)."""
    import random

    _ROT.update(dir=os.path.join(workdir, "rotating_pki"), rng=random.Random(seed), fraction=fraction)
    os.makedirs(_ROT["dir"], exist_ok=True)


def rotation_stats() -> int:
    return _ROT["handed_out"]


def path(name: str, what: str = "priv", fmt: str = "pem") -> str:
    """what: priv | pub | cert | nonca ; fmt: pem | der."""
    suffix = {"priv": "", "pub": ".pub", "cert": ".crt", "nonca": ".nonca.crt"}[what]
    p = os.path.join(DIR, f"{name}{suffix}.{fmt}")
    if not os.path.exists(p):
        raise FileNotFoundError(p)
    if _ROT["dir"] and _ROT["rng"].random() < _ROT["fraction"]:
        import shutil

        form = f"{suffix}.{fmt}"
        counters = _ROT.setdefault("per_form", {})
        counters[form] = counters.get(form, 0) + 1  # one ring of slots per form: only paths of the SAME form can meet again
        _ROT["handed_out"] += 1
        slot = os.path.join(_ROT["dir"], f"slot{counters[form] % ROT_SLOTS}{suffix}.{fmt}")
        shutil.copyfile(p, slot)
        return slot
    return p


def data(name: str, what: str = "priv", fmt: str = "pem") -> bytes:
    suffix = {"priv": "", "pub": ".pub", "cert": ".crt", "nonca": ".nonca.crt"}[what]
    with open(os.path.join(DIR, f"{name}{suffix}.{fmt}"), "rb") as f:
        return f.read()


def numbers(name: str) -> dict:
    """Raw numbers as ints: RSA {type,bits,n,e,d}; ECC {type,curve,x,y,d,size}."""
    v = dict(index()["keys"][name])
    for k in ("n", "d", "x", "y"):
        if k in v:
            v[k] = int(v[k], 16)
    if v["type"] == "ecc":
        v["size"] = COORD_SIZE[v["curve"]]
    return v


def rsa_pub_bytes(name: str) -> tuple[bytes, bytes]:
    """(modulus, exponent) as minimal big-endian byte strings."""
    v = numbers(name)
    return v["n"].to_bytes((v["n"].bit_length() + 7) // 8, "big"), v["e"].to_bytes((v["e"].bit_length() + 7) // 8, "big")


def ecc_pub_bytes(name: str) -> tuple[bytes, bytes]:
    """(X, Y) as fixed-width big-endian byte strings (coordinate size of the curve)."""
    v = numbers(name)
    return v["x"].to_bytes(v["size"], "big"), v["y"].to_bytes(v["size"], "big")


def chain(root: str, depth: int) -> dict:
    """depth 1: the self-signed root alone; 2: root -> leaf; 3: root -> mid -> leaf (RSA pools, roots 0..3)."""
    if depth == 1:
        return {"certs": [path(root, "cert", "der")], "keys": [root]}
    c = index()["chains"][f"{root}/{depth}"]
    return {"certs": [os.path.join(DIR, x) for x in c["certs"]], "keys": list(c["keys"])}
