"""Canary mutations for C01 / C02 (validation of the monitors, DESIGN.md section 4).

usage:  python canaries.py <base tree with the section-3 MBI repairs applied> [names...]
Each mutation is applied to a fresh copy of the base tree (outside /repo and /verif), the copy must still import, the
quick check is run with VERIF_REPO=<copy> and the NEW mechanism keys (not seen on the base tree) are printed.
"""
import os, subprocess, shutil, sys, re, json
BASE=sys.argv[1] if len(sys.argv) > 1 else "/tmp/c01/repo"
SCRATCH=os.environ.get("CANARY_SCRATCH", "/tmp/c01/canary")
MUT={
 # C01
 "c01-1-drop-load-addr": ("C01","spsdk/image/mbi/mbi_mixin.py",
   '''        data[self.IVT_LOAD_ADDR_OFFSET : self.IVT_LOAD_ADDR_OFFSET + 4] = struct.pack(
            "<I", load_addr
        )

        return bytes(data)''','''        return bytes(data)'''),
 "c01-2-swap-disassemble-slices": ("C01","spsdk/image/mbi/mbi_mixin.py",
   '''        tz_len = len(self.trust_zone.export())
        if tz_len:
            image = image[:-tz_len]
        super().disassemble_image(image)''','''        tz_len = len(self.trust_zone.export())
        if tz_len:
            image = image[tz_len:]
        super().disassemble_image(image)'''),
 "c01-3-tz-shift-12": ("C01","spsdk/image/mbi/mbi_mixin.py","    IVT_IMAGE_FLAGS_TZ_TYPE_SHIFT = 13","    IVT_IMAGE_FLAGS_TZ_TYPE_SHIFT = 12"),
 "c01-4-clean-ivt-skips-word": ("C01","spsdk/image/mbi/mbi_mixin.py",
   '''        # CRC value or Certification block offset
        data[self.IVT_CRC_CERTIFICATE_OFFSET : self.IVT_CRC_CERTIFICATE_OFFSET + 4] = bytes(4)
        # Execution address''','''        # Execution address'''),
 "c01-5-total-len-off-by-4": ("C01","spsdk/image/mbi/mbi.py",
   '''        ret = 0
        for base in self._get_mixins():
            ret += base.mix_len(self)  # type: ignore
        return ret''','''        ret = 4
        for base in self._get_mixins():
            ret += base.mix_len(self)  # type: ignore
        return ret'''),
 "c01-6-image-version-mask": ("C01","spsdk/image/mbi/mbi_mixin.py","    IVT_IMAGE_FLAGS_IMG_VER_MASK = 0xFFFF","    IVT_IMAGE_FLAGS_IMG_VER_MASK = 0x7FFF"),
 "c01-7-digest-revert-strips-too-little": ("C01","spsdk/image/mbi/mbi_mixin.py",
   '''                image.binary = image.binary[
                    : -self.manifest.get_hash_size(self.manifest.digest_hash_algo)
                ]''','''                image.binary = image.binary[
                    : -(self.manifest.get_hash_size(self.manifest.digest_hash_algo) - 4)
                ]'''),
 # C02
 "c02-1-sign-truncated": ("C02","spsdk/image/mbi/mbi_mixin.py",
   '''        signature = self.signature_provider.get_signature(image.export())
        image.append_image(BinaryImage(name="RSA signature", binary=signature))''','''        signature = self.signature_provider.get_signature(image.export()[:-4])
        image.append_image(BinaryImage(name="RSA signature", binary=signature))'''),
 "c02-2-hmac-60-bytes": ("C02","spsdk/image/mbi/mbi_mixin.py",
   '''        hmac_value = self.compute_hmac(raw_image[: self.HMAC_OFFSET])''','''        hmac_value = self.compute_hmac(raw_image[: self.HMAC_OFFSET - 4])'''),
 "c02-3-hmac-key-enc-constant": ("C02","spsdk/image/keystore.py",
   '''        return aes_ecb_encrypt(hmac_key, bytes([0] * 16))''','''        return aes_ecb_encrypt(hmac_key, bytes([1] + [0] * 15))'''),
 "c02-4-crc-start-4": ("C02","spsdk/image/mbi/mbi_mixin.py",
   '''        crc = crc_obj.calculate(input_image[: self.IVT_CRC_CERTIFICATE_OFFSET])''','''        crc = crc_obj.calculate(input_image[4 : self.IVT_CRC_CERTIFICATE_OFFSET])'''),
 "c02-5-image-length-without-tz": ("C02","spsdk/image/mbi/mbi_mixin.py",
   '''        self.cert_block.image_length = self.total_length_for_cert_block
''','''        self.cert_block.image_length = self.total_length_for_cert_block - len(self.trust_zone.export())
'''),
 "c02-6-ecc-sign-skips-manifest-word": ("C02","spsdk/image/mbi/mbi_mixin.py",
   '''        self.data_to_sign = image.export()
        signature = self.signature_provider.get_signature(self.data_to_sign)''','''        self.data_to_sign = image.export()
        signature = self.signature_provider.get_signature(self.data_to_sign[:-4])'''),
 "c02-7-enc-key-not-derived": ("C02","spsdk/image/mbi/mbi_mixin.py",
   '''        if not self.key_store or self.key_store.key_source == KeySourceType.OTP:
            key = KeyStore.derive_enc_image_key(key)''','''        if self.key_store and self.key_store.key_source == KeySourceType.OTP:
            key = KeyStore.derive_enc_image_key(key)'''),
 "c02-8-rkh-table-unused-slot-dropped": ("C02","spsdk/utils/crypto/cert_blocks.py",
   '''                cert_block.set_root_key_hash(cert_idx, Certificate.parse(cert_data))''','''                if cert_idx <= main_cert_chain_id:
                    cert_block.set_root_key_hash(cert_idx, Certificate.parse(cert_data))'''),
}
def main():
    names = sys.argv[2:] or list(MUT)
    base_keys = {"C01":{"mbi-parse-type-from-payload","mbi-type-ambiguous-xip-vs-ram"},"C02":set()}
    for name in names:
        prop, rel, old, new = MUT[name]
        dst=f"{SCRATCH}/{name}"
        shutil.rmtree(dst, ignore_errors=True)
        subprocess.run(["rsync","-a","--exclude",".git","--exclude","docs","--exclude","examples","--exclude","tests/mcu_examples",BASE+"/",dst+"/"],check=True)
        p=os.path.join(dst,rel); s=open(p).read()
        assert s.count(old)>=1, (name,"pattern not found")
        open(p,"w").write(s.replace(old,new,1))
        imp=subprocess.run(["/venv/bin/python","-c","import spsdk.image.mbi.mbi, spsdk.apps.nxpimage"],env=dict(os.environ,PYTHONPATH=dst,SPSDK_CACHE_FOLDER="/tmp/c01/cache",SPSDK_DEBUG_LOGGING_DISABLED="1"),capture_output=True,text=True)
        r=subprocess.run(["./check",prop],cwd="/verif",env=dict(os.environ,VERIF_REPO=dst),capture_output=True,text=True)
        keys=sorted(set(re.findall(r"mechanism=(\S+)", r.stdout))-base_keys[prop])
        print(f"{name}: import_ok={imp.returncode==0} exit={r.returncode} new_keys={keys}", flush=True)
        shutil.rmtree(dst, ignore_errors=True)
main()
