"""One-line demonstrations of the C01/C02 defects (run: PYTHONPATH=$VERIF_REPO:/verif SPSDK_CACHE_FOLDER=/tmp/x/cache
SPSDK_DEBUG_LOGGING_DISABLED=1 /venv/bin/python /verif/fixtures/c01/witnesses.py [workdir]).  Prints 'DEFECT <key>: ...'
on the unchanged tree and 'ok <key>' where the behaviour is repaired."""
import os
import random
import sys

from vf.props import mbi_gen as G
from spsdk.crypto.signature_provider import get_signature_provider
from spsdk.exceptions import SPSDKError
from spsdk.image.mbi.mbi import MasterBootImage

WD = sys.argv[1] if len(sys.argv) > 1 else "/tmp/c01/witness"
os.makedirs(WD, exist_ok=True)


def build(family, target, auth, **want):
    info = next(i for i in G.images(family) if i["target"] == target and i["auth"] == auth)
    b = G.build(family, info, random.Random(1), WD, want=want)
    return b


def pad4(x):
    return x + bytes(-len(x) % 4)


def clean(x):
    a = bytearray(x)
    for w in (0x20, 0x24, 0x28, 0x34):
        a[w:w + 4] = bytes(4)
    return bytes(a)


def report(key, fn):
    try:
        bad = fn()
    except SPSDKError as e:
        bad = f"{type(e).__name__}: {str(e)[:90]}"
    except Exception as e:  # pylint: disable=broad-except
        bad = f"{type(e).__name__}: {str(e)[:90]}"
    print(f"DEFECT {key}: {bad}" if bad else f"ok {key}")


def certv1_slice():
    b = build("lpc55s69", "xip", "signed", payload_class="0x200", content="random", tz="disabled", kind="rsa2048", depth=1)
    _o, data = G.export(b)
    p = MasterBootImage.parse("lpc55s69", data)
    return None if p.app == clean(pad4(b.app)) else f"parsed payload {len(p.app)} bytes, input {len(b.app)}"


def reloc():
    b = build("mimxrt595s", "load_to_ram", "crc", payload_class="0x200", content="random", reloc=2, tz="enabled")
    _o, data = G.export(b)
    p = MasterBootImage.parse("mimxrt595s", data)
    got = [(e.dst_addr, bytes(e.image)) for e in p.app_table.entries] if p.app_table else []
    want = [(d, i) for d, i, _l in b.opts["reloc"]]
    if got != want or p.app != clean(pad4(b.app)):
        return f"entries equal: {got == want}, payload {len(p.app)} vs {len(pad4(b.app))}"
    p.create_config(os.path.join(WD, "reloc_cfg"))
    return None


def reloc_config():
    from spsdk.image.mbi.mbi_classes import MultipleImageEntry, MultipleImageTable
    from spsdk.image.mbi.mbi import create_mbi_class

    obj = create_mbi_class("crc_ram", "mimxrt595s")()
    obj.app_table = MultipleImageTable()
    obj.app_table.add_entry(MultipleImageEntry(b"abcd", 0x20000000))
    from spsdk.image.mbi.mbi_mixin import Mbi_MixinRelocTable

    os.makedirs(os.path.join(WD, "rc"), exist_ok=True)
    Mbi_MixinRelocTable.mix_get_config(obj, os.path.join(WD, "rc"))
    return None


def lookalike():
    b = build("mimxrt798s", "load_to_ram", "crc", payload_class="0x200", content="reloc_lookalike", reloc=0, tz="enabled")
    _o, data = G.export(b)
    p = MasterBootImage.parse("mimxrt798s", data)
    return None if p.app == clean(pad4(b.app)) and not p.app_table else "look-alike taken for a table"


def mixin_order():
    b = build("lpc55s69", "xip", "signed", payload_class="0x400", content="random", tz="custom", kind="rsa2048", depth=1)
    _o, data = G.export(b)
    p = MasterBootImage.parse("lpc55s69", data)
    return None if p.trust_zone.export() == b.opts["tz_bytes"] else "preset differs"


def tz_hmac():
    b = build("mimxrt595s", "load_to_ram", "signed", payload_class="0x400", content="random", tz="custom", kind="rsa2048", depth=1, reloc=0)
    _o, data = G.export(b)
    p = MasterBootImage.parse("mimxrt595s", data, dek=b.dek)
    return None if p.trust_zone.export() == b.opts["tz_bytes"] else "preset read 32 bytes early"


def dsc():
    b = build("mc56f81768", "xip", "plain", payload_class="0xE00", content="random")
    _o, data = G.export(b)
    p = MasterBootImage.parse("mc56f81768", data)
    return None if len(p.app or b"") == len(pad4(b.app)) else f"parsed payload {len(p.app or b'')} bytes"


def hmac_offset():
    out = []
    for auth, pc in (("signed", "0x38"), ("encrypted", "0x38"), ("encrypted", "0x40")):
        b = build("mimxrt595s", "load_to_ram", auth, payload_class=pc, content="random", tz="disabled", kind="rsa2048", depth=1, reloc=0)
        try:
            _o, data = G.export(b)
        except SPSDKError:
            continue        # refused: fine
        try:
            MasterBootImage.parse("mimxrt595s", data, dek=b.dek)
        except SPSDKError as e:
            out.append(f"{auth}/{pc}: file {len(data):#x} length word {int.from_bytes(data[0x20:0x24], 'little'):#x}, parse: {str(e)[:40]}")
    return "; ".join(out) or None


def manifest_tz():
    b = build("mcxn947", "xip", "signed", payload_class="0x200", content="random", tz="enabled", curve="p256", isk=False)
    _o, data = G.export(b)
    p = MasterBootImage.parse("mcxn947", data)
    p.signature_provider = get_signature_provider(local_file_key=b.cfg["signPrivateKey"])
    p.export()
    return None if p.trust_zone.type.tag == 0 else f"parsed TrustZone type {p.trust_zone.type.label}"


def vx_add_hash():
    b = build("mc56f81868", "xip", "signed", payload_class="0xE00", content="random", add_hash=True, lifecycle="OEM_OPEN")
    _o, data = G.export(b)
    p = MasterBootImage.parse("mc56f81868", data)
    p.signature_provider = get_signature_provider(local_file_key=b.cfg["signPrivateKey"])
    d2 = p.export()
    return None if d2[:0x380] == data[:0x380] and d2[0x3C0:] == data[0x3C0:] else "re-export differs"


def sigsize():
    b = build("lpc55s69", "xip", "signed", payload_class="0x200", content="random", tz="disabled", kind="rsa3072", depth=2, mixed=True, leaf_kind="rsa2048")
    _o, data = G.export(b)
    word = int.from_bytes(data[0x20:0x24], "little")
    return None if word == len(data) else f"length word {word:#x}, file {len(data):#x} (root RSA-3072, image signed by RSA-2048)"


def dsc_short():
    b = build("mc56f81646", "xip", "crc", payload_class="0x400", content="random", lifecycle="OEM_OPEN")
    try:
        _o, data = G.export(b)
    except SPSDKError:
        return None     # refused: fine
    return f"0x400-byte application accepted, file {len(data)} bytes (header area alone is 0xC00)"


def dsc_lifecycle():
    b = build("mc56f81768", "xip", "crc", payload_class="0xE00", content="ones", lifecycle="NOT_SET", fcf_byte=0xF3)
    _o, data = G.export(b)
    p = MasterBootImage.parse("mc56f81768", data)
    os.makedirs(os.path.join(WD, "lc"), exist_ok=True)
    p.create_config(os.path.join(WD, "lc"))      # raises SPSDKKeyError on the unchanged tree (as does a second export)
    return None


for k, f in [("mbi-certv1-disassemble-negative-slice", certv1_slice), ("mbi-reloc-table-parse", reloc),
             ("mbi-reloc-create-config-text-mode-write", reloc_config),
             ("mbi-reloc-marker-lookalike-misdetected", lookalike), ("mbi-parse-mixin-order-trustzone-before-certblock", mixin_order),
             ("mbi-tz-offset-ignores-hmac-block", tz_hmac), ("mbi-dsc-appfcf-disassemble-missing", dsc),
             ("mbi-encrypted-app-not-beyond-hmac-offset", hmac_offset), ("mbi-manifest-parse-default-tz-disabled", manifest_tz),
             ("mbi-vx-parse-add-hash-not-restored", vx_add_hash), ("certv1-signature-size-from-root-certificate", sigsize),
             ("mbi-dsc-app-shorter-than-header-area", dsc_short), ("mbi-dsc-unknown-lifecycle-byte", dsc_lifecycle)]:
    report(k, f)
